CONSTANTS
 NComp = 2
 CapDry <- cDry
 CapFc <- cFc
 CapSat <- cSat
 Ksat1 = 3
 KsatN = 3
 RainSet = {0, 1, 5}
 IrrSet = {0, 2}
 EtSet = {0, 1, 2}
 BundSeason = 2
 BundFallow = 0
 Tables = {0}
 NetIrr = FALSE
 OffSeason = FALSE
 Days = 2
SPECIFICATION Spec
INVARIANT C01_Closure
INVARIANT C02_Partition
INVARIANT C03_Bounds
INVARIANT C04_Signs
INVARIANT C19_Table
INVARIANT C03_Always
PROPERTY C01_CarryOver
CHECK_DEADLOCK FALSE
