----------------------------- MODULE WaterRel -----------------------------
(***************************************************************************)
(* Contract relations of the soil-water stages of the daily pipeline         *)
(* (solution_single_time_step), each a record of NAMED CLAUSES               *)
(*     StageC(K, pre, post, a)  :  [clauseName |-> BOOLEAN]                  *)
(* over the abstract water state  [W : Seq(Num) (mm per compartment),        *)
(* pond : Num (mm)], run constants K and the stage's logged arguments a.     *)
(* Rel(c) is the conjunction of a clause record.                             *)
(*                                                                          *)
(* The SAME operators are used by                                           *)
(*   - AquaDay.tla / MC_Water: every stage action is                         *)
(*       \E post, a : Rel(StageC(K, cur, post, a))   (all kernels allowed)   *)
(*   - Trace.tla: for a recorded stage event the failing clause names are    *)
(*       Failing(StageC(K, prev, logged, loggedArgs)).                       *)
(* Numbers are Num pairs (10^-12 fixed point); the model-checking instance   *)
(* lives on the sub-lattice <<n,0>>.                                         *)
(***************************************************************************)
EXTENDS Num, FiniteSets

Rel(c) == \A k \in DOMAIN c : c[k]
Failing(c) == {k \in DOMAIN c : ~c[k]}

Tol6 == Tiny(1000000)        \* 1e-6 : conservation equalities (C01 "exact to floating-point rounding (1e-6 mm)")
Tol9 == Tiny(1000)           \* 1e-9 : inequalities between independently computed doubles
Idx(K) == 1..K.N

Stored(ws) == Add(Sum(ws.W), ws.pond)
InBounds(K, ws) == \A i \in Idx(K) : LeTol(K.Wdry[i], ws.W[i], Tol9) /\ LeTol(ws.W[i], K.Wsat[i], Tol9)
Same(pre, post) == post.W = pre.W /\ post.pond = pre.pond

(* ---- 3. pre-irrigation (net irrigation, first day of the season) ------- *)
\* a: [preIrr, enabled]  enabled <=> growing season /\ method = 4 /\ dap = 1
PreIrrC(K, pre, post, a) ==
  [ closure  |-> Near(Sub(Sum(post.W), Sum(pre.W)), a.preIrr, Tol6),
    sign     |-> Ge(a.preIrr, Z),
    pondSame |-> post.pond = pre.pond,
    disabled |-> (~a.enabled) => (IsZero(a.preIrr) /\ post.W = pre.W),
    riseOnly |-> \A i \in Idx(K) : Ge(post.W[i], pre.W[i]),
    toTarget |-> \A i \in Idx(K) : Gt(post.W[i], pre.W[i]) => LeTol(post.W[i], K.Wfc[i], Tol9) ]

(* ---- 4. drainage ------------------------------------------------------- *)
\* a: [dp, fcAdj]
DrainC(K, pre, post, a) ==
  [ closure  |-> Near(Sub(Sum(pre.W), Sum(post.W)), a.dp, Tol6),
    sign     |-> Ge(a.dp, Z),
    pondSame |-> post.pond = pre.pond,
    belowSat |-> \A i \in Idx(K) : LeTol(post.W[i], K.Wsat[i], Tol9),
    \* no net upward movement across any interface: prefix sums never grow
    downward |-> \A i \in Idx(K) : LeTol(SumTo(post.W, i), SumTo(pre.W, i), Tol6),
    dpCap    |-> LeTol(a.dp, K.ksat[K.N], Tol9) ]

(* ---- 5. rainfall partition (curve number) ------------------------------ *)
\* a: [P, runoff, infl, blocked]   blocked <=> bunds higher than 1 mm or runoff inhibited
RainC(K, pre, post, a) ==
  [ same     |-> Same(pre, post),
    roSign   |-> Ge(a.runoff, Z),
    roLeP    |-> LeTol(a.runoff, a.P, Tol9),
    split    |-> Near(Add(a.runoff, a.infl), a.P, Tol9),
    blocked  |-> a.blocked => (IsZero(a.runoff) /\ Eq(a.infl, a.P)) ]

(* ---- 7. infiltration: exact surface arithmetic + contract for the profile *)
\* a: [inflCn, irrEff, gs, bunds (effective today), zBund, ksat1, dp0, runoff0, dp, runoff, infl]
InfIn(a) == Add(Max(a.inflCn, Z), IF a.gs THEN a.irrEff ELSE Z)
InfTot(pre, a) == IF a.bunds THEN Add(InfIn(a), pre.pond) ELSE InfIn(a)
InfToStore(pre, a) == Min(InfTot(pre, a), a.ksat1)
InfPond1(pre, a) == IF a.bunds THEN Min(Sub(InfTot(pre, a), InfToStore(pre, a)), a.zBund) ELSE Z
InfRoIni(pre, a) == IF a.bunds THEN Sub(Sub(InfTot(pre, a), InfToStore(pre, a)), InfPond1(pre, a))
                    ELSE Add(Sub(InfIn(a), InfToStore(pre, a)), pre.pond)
\* water that could not be stored in the profile and backed up to the surface
InfBack(pre, post, a) == Sub(Sub(InfToStore(pre, a), Sub(a.dp, a.dp0)), Sub(Sum(post.W), Sum(pre.W)))
InfiltrateC(K, pre, post, a) ==
  LET back  == InfBack(pre, post, a)
      pond1 == InfPond1(pre, a)
      roD   == Sub(a.runoff, a.runoff0)
  IN
  [ \* conservation over profile + surface (what C01/C02 need from this stage)
    closure  |-> Near(Sub(Stored(post), Stored(pre)), Sub(Sub(InfIn(a), Sub(a.dp, a.dp0)), roD), Tol6),
    inflDef  |-> Near(a.infl, Sub(InfIn(a), roD), Tol6),
    dpGrows  |-> LeTol(a.dp0, a.dp, Tol9),
    roGrows  |-> LeTol(a.runoff0, a.runoff, Tol9),
    backSign |-> LeTol(Z, back, Tol6),
    backCap  |-> LeTol(back, InfToStore(pre, a), Tol6),
    dpCap    |-> LeTol(Sub(a.dp, a.dp0), InfToStore(pre, a), Tol6),
    belowSat |-> \A i \in Idx(K) : LeTol(post.W[i], K.Wsat[i], Tol9),
    riseOnly |-> \A i \in Idx(K) : LeTol(pre.W[i], post.W[i], Tol9),
    \* exact surface arithmetic
    pondNew  |-> IF a.bunds THEN Near(post.pond, Min(Add(pond1, Max(back, Z)), a.zBund), Tol6) ELSE IsZero(post.pond),
    runoffD  |-> IF a.bunds
                 THEN Near(roD, Add(InfRoIni(pre, a), Sub(Add(pond1, Max(back, Z)), Min(Add(pond1, Max(back, Z)), a.zBund))), Tol6)
                 ELSE Near(roD, Add(InfRoIni(pre, a), Max(back, Z)), Tol6) ]

(* ---- 8. capillary rise -------------------------------------------------- *)
\* a: [cr, wt (BOOLEAN), fcAdj, thick (Seq Num, m)]
RisenThick(K, pre, post, a) == LET RECURSIVE T(_)
                                   T(i) == IF i = 0 THEN Z ELSE Add(T(i - 1), IF Gt(post.W[i], pre.W[i]) THEN a.thick[i] ELSE Z)
                               IN T(K.N)
\* 0.05 mm per metre of risen compartments = thick[m] * 0.05 ;  thick is in metres, so allowance = thick / 20
\* (computed without division: 20 * |diff| <= thick  in mm)
CrWithin(diff, thickM) == Le(Times(Abs(diff), 20), Add(thickM, Tiny(20000000)))
CapRiseC(K, pre, post, a) ==
  [ pondSame |-> post.pond = pre.pond,
    noTable  |-> (~a.wt) => (IsZero(a.cr) /\ post.W = pre.W),
    sign     |-> Ge(a.cr, Z),
    riseOnly |-> \A i \in Idx(K) : Ge(post.W[i], pre.W[i]),
    closure  |-> CrWithin(Sub(Sub(Sum(post.W), Sum(pre.W)), a.cr), RisenThick(K, pre, post, a)),
    \* never above the adjusted field capacity (5e-5 m3/m3 = the code's round(.,4) of the available room)
    fcCap    |-> \A i \in Idx(K) : Gt(post.W[i], pre.W[i]) => Le(post.W[i], Add(a.fcAdj[i], Add(a.slack[i], Tol9))) ]

(* ---- 12. soil evaporation ----------------------------------------------- *)
\* a: [es, espot]
EvapC(K, pre, post, a) ==
  [ closure   |-> Near(Sub(Stored(pre), Stored(post)), a.es, Tol6),
    potSign   |-> Ge(a.espot, Z),
    sign      |-> Ge(a.es, Z),
    lePot     |-> LeTol(a.es, a.espot, Tol9),
    lossOnly  |-> \A i \in Idx(K) : LeTol(post.W[i], pre.W[i], Tol9),
    aboveDry  |-> \A i \in Idx(K) : Lt(post.W[i], pre.W[i]) => LeTol(K.Wdry[i], post.W[i], Tol9),
    pondFirst |-> /\ Le(post.pond, pre.pond) /\ Ge(post.pond, Z)
                  /\ (IsPos(post.pond) => post.W = pre.W) ]

(* ---- 13. transpiration (+ net irrigation) ------------------------------- *)
\* a: [tr, trpot, irrnet, gs, net (method = 4)]
TranspC(K, pre, post, a) ==
  [ closure  |-> Near(Sub(Stored(post), Stored(pre)), Sub(a.irrnet, a.tr), Tol6),
    offSeason|-> (~a.gs) => (IsZero(a.tr) /\ IsZero(a.trpot) /\ IsZero(a.irrnet) /\ Same(pre, post)),
    sign     |-> Ge(a.tr, Z) /\ Ge(a.trpot, Z),
    lePot    |-> LeTol(a.tr, a.trpot, Tol9),
    netOnly  |-> (~a.net) => IsZero(a.irrnet),
    pondLoss |-> Le(post.pond, pre.pond) /\ Ge(post.pond, Z),
    aboveDry |-> \A i \in Idx(K) : Lt(post.W[i], pre.W[i]) => LeTol(K.Wdry[i], post.W[i], Tol9) ]

(* ---- 14. groundwater inflow --------------------------------------------- *)
\* a: [gwin, wtInSoil, first]  first = index of the first compartment at/below the table (0 = none)
GwInC(K, pre, post, a) ==
  [ pondSame |-> post.pond = pre.pond,
    closure  |-> Near(Sub(Sum(post.W), Sum(pre.W)), a.gwin, Tol6),
    sign     |-> Ge(a.gwin, Z),
    noTable  |-> (~a.wtInSoil) => (IsZero(a.gwin) /\ post.W = pre.W),
    fills    |-> a.wtInSoil /\ a.first > 0 =>
                   \A i \in Idx(K) : IF i >= a.first THEN Eq(post.W[i], Max(pre.W[i], K.Wsat[i]))
                                     ELSE post.W[i] = pre.W[i] ]

(* ---- stages that must not touch water ------------------------------------ *)
FrameC(K, pre, post) == [ same |-> Same(pre, post) ]

(***************************************************************************)
(* Day-level properties over the day's ledger d (reported fluxes of the      *)
(* day's table row) and the water state at the beginning / end of the day.   *)
(***************************************************************************)
\* d: [P, irrEff, infl, runoff, dp, cr, gwin, es, espot, tr, trpot, irrDay, netAdd, crAllowThick, gs, bundsToday, zBund,
\*     method, nRoot, wr, wt]
DayClosureC(K, begin, end, d) ==
  LET lhs == Sub(Stored(end), Stored(begin))
      rhs == Sub(Add(Add(Add(d.infl, d.netAdd), d.cr), d.gwin), Add(Add(d.dp, d.es), d.tr))
      diff == Sub(lhs, rhs)
  IN [ closure |-> \/ Near(lhs, rhs, Tol6)
                   \/ (IsPos(d.cr) /\ CrWithin(diff, d.crAllowThick)) ]

DayPartitionC(K, begin, d) ==
  LET supply == Add(d.P, IF d.gs THEN d.irrEff ELSE Z)
  IN [ partition |-> Near(Add(d.infl, d.runoff), supply, Tol6),
       roSign    |-> LeTol(Z, d.runoff, Tol9),
       roCap     |-> LeTol(d.runoff, Add(supply, begin.pond), Tol6),
       negInfl   |-> IsNeg(d.infl) /\ ~Near(d.infl, Z, Tol9) =>
                        \* bunds removed today, or lowered below the water standing behind them
                        ((~d.bundsToday \/ Lt(d.zBund, begin.pond)) /\ IsPos(begin.pond) /\ LeTol(Neg(d.infl), begin.pond, Tol6)),
       nothing   |-> (IsZero(d.P) /\ IsZero(IF d.gs THEN d.irrEff ELSE Z) /\ IsZero(begin.pond)) =>
                        (Near(d.infl, Z, Tol9) /\ Near(d.runoff, Z, Tol9)) ]

DayBoundsC(K, end, d) ==
  [ thRange  |-> InBounds(K, end),
    pondSign |-> Ge(end.pond, Z),
    pondCap  |-> d.bundsToday => LeTol(end.pond, d.zBund, Tol9),
    pondNone |-> (~d.bundsToday) => IsZero(end.pond),
    wrSign   |-> Ge(d.wr, Z) ]

\* net-irrigation requirement may be negative by the 0.01 mm-per-compartment rounding of the root-zone bookkeeping
NetSlack(n) == Milli(10 * n)
DaySignsC(K, d) ==
  [ irr      |-> IF d.method = 4 THEN LeTol(Z, d.irrDay, NetSlack(d.nRoot)) ELSE Ge(d.irrDay, Z),
    runoff   |-> LeTol(Z, d.runoff, Tol9),
    dp       |-> Ge(d.dp, Z),
    cr       |-> Ge(d.cr, Z),
    gwin     |-> Ge(d.gwin, Z),
    espot    |-> Ge(d.espot, Z),
    es       |-> Ge(d.es, Z),
    trpot    |-> Ge(d.trpot, Z),
    tr       |-> Ge(d.tr, Z),
    esLePot  |-> LeTol(d.es, d.espot, Tol9),
    trLePot  |-> LeTol(d.tr, d.trpot, Tol9),
    offSeason|-> (~d.gs) => (IsZero(d.tr) /\ IsZero(d.trpot) /\ IsZero(d.irrDay)) ]

\* groundwater at day level: saturation below the table; no table => no capillary rise / inflow
DayGwC(K, end, d) ==
  [ noTable   |-> (~d.wt) => (IsZero(d.cr) /\ IsZero(d.gwin)),
    \* (a centre within 1e-9 m of the table is a tie between exact and floating-point comparison: either outcome accepted)
    saturated |-> d.wt /\ d.hasZ => \A i \in Idx(K) : Ge(K.zmid[i], Add(d.zgw, Tol9)) => Near(end.W[i], K.Wsat[i], Tol9) ]
=============================================================================
