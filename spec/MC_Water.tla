---- MODULE MC_Water ----
EXTENDS AquaDay
cDry == <<0, 0>>
cFc == <<2, 2>>
cSat == <<3, 3>>
cDryS == <<0, 0>>
cFcS == <<1, 1>>
cSatS == <<2, 2>>
====
