SPECIFICATION ESpec
CHECK_DEADLOCK FALSE
