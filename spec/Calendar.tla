----------------------------- MODULE Calendar -----------------------------
(***************************************************************************)
(* Proleptic Gregorian calendar over the integers: the independent date     *)
(* model of property C07.  DayNo(y,m,d) is the day number with              *)
(* DayNo(1,1,1) = 1 (the same numbering as Python's date.toordinal, which   *)
(* is what the harness logs), so dates cross the boundary as plain ints.    *)
(***************************************************************************)
EXTENDS Integers, Sequences

IsLeap(y) == (y % 4 = 0 /\ y % 100 # 0) \/ y % 400 = 0
DaysInMonth(y, m) == IF m \in {1, 3, 5, 7, 8, 10, 12} THEN 31
                     ELSE IF m \in {4, 6, 9, 11} THEN 30
                     ELSE IF IsLeap(y) THEN 29 ELSE 28
DaysInYear(y) == IF IsLeap(y) THEN 366 ELSE 365
DaysBeforeYear(y) == (y - 1) * 365 + ((y - 1) \div 4) - ((y - 1) \div 100) + ((y - 1) \div 400)
RECURSIVE DaysBeforeMonth(_, _)
DaysBeforeMonth(y, m) == IF m = 1 THEN 0 ELSE DaysBeforeMonth(y, m - 1) + DaysInMonth(y, m - 1)
ValidYMD(y, m, d) == m \in 1..12 /\ d >= 1 /\ d <= DaysInMonth(y, m)
DayNo(y, m, d) == DaysBeforeYear(y) + DaysBeforeMonth(y, m) + d

\* inverse, by bounded search (years 1600..2400 cover every window the framework uses)
YearOf(n) == CHOOSE y \in 1600..2400 : DayNo(y, 1, 1) <= n /\ n < DayNo(y + 1, 1, 1)
MonthOf(n) == LET y == YearOf(n) IN
              CHOOSE m \in 1..12 : DayNo(y, m, 1) <= n /\ n < DayNo(y, m, 1) + DaysInMonth(y, m)
YMDOf(n) == LET y == YearOf(n) m == MonthOf(n) IN <<y, m, n - DayNo(y, m, 1) + 1>>
\* month/day of the date k days after <<1990, m, d>> (the reference year the implementation uses
\* to turn "planting date + days" into a month/day pair)
MDAfter1990(md, k) == LET r == YMDOf(DayNo(1990, md[1], md[2]) + k) IN <<r[2], r[3]>>
MD1990(md) == DayNo(1990, md[1], md[2])
=============================================================================
