CONSTANTS
 Pairs <- cPairsAll
 Lo <- cLo
 Hi = 120
SPECIFICATION Spec
INVARIANT Range
INVARIANT MonoMax
INVARIANT MonoMin
INVARIANT Agree
CHECK_DEADLOCK FALSE
