CONSTANTS
 NSeasons = 3
 SeasonLen = 5
 K = 3
 MaxW = 3
 W0 = 1
 Cap = 2
 ResetSet = {"w", "pond", "cnt", "dem", "cum", "mature", "dead"}
SPECIFICATION Spec
INVARIANT TypeOK
INVARIANT Independent
INVARIANT SameOutcome
CHECK_DEADLOCK FALSE
