------------------------------ MODULE SoilDoc ------------------------------
(***************************************************************************)
(* Judging soil profiles and initial water contents that the real code built *)
(* (property C18; documents written by harness/soildoc.py), with the          *)
(* well-formedness predicate and the interpretation of the initial-water-     *)
(* content specification (type Prop / Pct / Num x method Layer / Depth).      *)
(***************************************************************************)
EXTENDS Num, FiniteSets, Json, IOUtils, TLC

RECURSIVE CumTo(_, _)
CumTo(s, n) == IF n = 0 THEN 0 ELSE CumTo(s, n - 1) + s[n]

(***************************************************************************)
(* Judging profiles built by the real code.  Document d:                      *)
(*  dzcm, dzsumcm : Seq(Int)   layer : Seq(Int)   zbot, ztop, zmid : Seq(Num)  *)
(*  dry, wp, fc, sat, tau, ksat, pen : Seq(Num)                               *)
(*  layerDefs : Seq([wp, fc, sat, ksat, pen])  (as given by the user; empty = not known)*)
(*  zmaxcm : Int   deepened : BOOLEAN   th0 : Seq(Num)                        *)
(*  iwc : [type, method, points : Seq([at (layer index or depth in cm), value (Num) or prop])] *)
(***************************************************************************)
Docs == JsonDeserialize(IOEnv.TRACE_FILE)
ND == Len(Docs)
T9 == Tiny(1000)
CmToM(c) == <<c * 100, 0>>
ProfileC(d) ==
  LET n == Len(d.dzcm) IN
  [ finite     |-> AllFinite(d.dry) /\ AllFinite(d.wp) /\ AllFinite(d.fc) /\ AllFinite(d.sat) /\ AllFinite(d.tau) /\ AllFinite(d.ksat)
                   /\ AllFinite(d.pen) /\ AllFinite(d.zbot) /\ AllFinite(d.ztop) /\ AllFinite(d.zmid),
    runningSum |-> \A i \in 1..n : d.dzsumcm[i] = CumTo(d.dzcm, i),
    bottoms    |-> \A i \in 1..n : Near(d.zbot[i], CmToM(CumTo(d.dzcm, i)), T9),
    tops       |-> \A i \in 1..n : Near(d.ztop[i], CmToM(CumTo(d.dzcm, i) - d.dzcm[i]), T9),
    mids       |-> \A i \in 1..n : Near(Add(d.zmid[i], d.zmid[i]), CmToM(2 * CumTo(d.dzcm, i) - d.dzcm[i]), T9),
    layersFromSurface |-> d.layer[1] = 1 /\ \A i \in 1..(n - 1) : d.layer[i + 1] \in {d.layer[i], d.layer[i] + 1},
    ordering   |-> \A i \in 1..n : Lt(d.dry[i], d.wp[i]) /\ Lt(d.wp[i], d.fc[i]) /\ Le(d.fc[i], d.sat[i]),
    tauRange   |-> \A i \in 1..n : Ge(d.tau[i], Z) /\ Le(d.tau[i], Units(1)),
    belowZmax  |-> CumTo(d.dzcm, n) >= d.zmaxcm,
    extent     |-> d.nComp = n /\ Near(d.zSoil, CmToM(CumTo(d.dzcm, n)), T9),
    keepsLayerProps |-> Len(d.layerDefs) = 0 \/
                        \A i \in 1..n : LET L == d.layerDefs[d.layer[i]] IN
                            /\ Near(d.wp[i], L.wp, T9) /\ Near(d.fc[i], L.fc, T9) /\ Near(d.sat[i], L.sat, T9)
                            /\ Near(d.ksat[i], L.ksat, T9) /\ Near(d.pen[i], L.pen, T9) /\ Near(Add(d.dry[i], d.dry[i]), L.wp, T9) ]

\* initial water content
PropVal(d, i, p) == CASE p = "WP" -> d.wp[i] [] p = "FC" -> d.fc[i] [] p = "SAT" -> d.sat[i] [] OTHER -> Z
FirstCompOfLayer(d, k) == CHOOSE i \in 1..Len(d.layer) : d.layer[i] = k /\ \A j \in 1..Len(d.layer) : d.layer[j] = k => i <= j
\* the value a point of the specification stands for, in the layer that contains compartment i (Layer method) or depth (Depth method)
LayerAtDepth(d, cm) == LET S == {i \in 1..Len(d.dzcm) : cm < CumTo(d.dzcm, i)}
                       IN IF S = {} THEN d.layer[Len(d.layer)] ELSE d.layer[CHOOSE i \in S : \A j \in S : i <= j]
PointValue(d, pt, k) ==          \* k = layer the point refers to
  LET i == FirstCompOfLayer(d, k) IN
  CASE d.iwc.type = "Num"  -> pt.value
    [] d.iwc.type = "Prop" -> PropVal(d, i, pt.prop)
    [] d.iwc.type = "Pct"  -> Add(d.wp[i], Div100(Mul(pt.value, Sub(d.fc[i], d.wp[i]))))
    [] OTHER -> Z
\* Depth method: points (depth cm, value) extended by (0, first) and (bottom, last); linear interpolation at the mid-depth
DepthPts(d) == LET P == [j \in 1..Len(d.iwc.points) |-> [cm |-> d.iwc.points[j].at, v |-> PointValue(d, d.iwc.points[j], LayerAtDepth(d, d.iwc.points[j].at))]]
                   tot == CumTo(d.dzcm, Len(d.dzcm))
                   P1 == IF P[1].cm > 0 THEN <<[cm |-> 0, v |-> P[1].v]>> \o P ELSE P
               IN IF P1[Len(P1)].cm < tot THEN Append(P1, [cm |-> tot, v |-> P1[Len(P1)].v]) ELSE P1
\* twice the mid-depth in cm keeps everything integral
InterpOk(d, i) ==
  LET P == DepthPts(d)
      m2 == 2 * CumTo(d.dzcm, i) - d.dzcm[i]
      lo == {j \in 1..Len(P) : 2 * P[j].cm <= m2}
      hi == {j \in 1..Len(P) : 2 * P[j].cm >= m2}
  IN IF lo = {} THEN Near(d.th0[i], P[1].v, T9)
     ELSE IF hi = {} THEN Near(d.th0[i], P[Len(P)].v, T9)
     ELSE LET a == CHOOSE j \in lo : \A q \in lo : q <= j
              b == CHOOSE j \in hi : \A q \in hi : j <= q
          IN IF a = b \/ P[a].cm = P[b].cm THEN Near(d.th0[i], P[b].v, T9) \/ Near(d.th0[i], P[a].v, T9)
             ELSE \* th0 * 2(cb - ca) = va * (2cb - m2) + vb * (m2 - 2ca)
                  Near(Mul(d.th0[i], Units(2 * (P[b].cm - P[a].cm))),
                       Add(Mul(P[a].v, Units(2 * P[b].cm - m2)), Mul(P[b].v, Units(m2 - 2 * P[a].cm))), Tiny(1000000))
IwcC(d) ==
  IF d.iwc.method = "Layer"
  THEN [ layerValue |-> \A i \in 1..Len(d.th0) :
                           (\E j \in 1..Len(d.iwc.points) : d.iwc.points[j].at = d.layer[i]) =>
                              LET j == CHOOSE j \in 1..Len(d.iwc.points) : d.iwc.points[j].at = d.layer[i] /\ \A q \in 1..Len(d.iwc.points) : d.iwc.points[q].at = d.layer[i] => q <= j
                              IN Near(d.th0[i], PointValue(d, d.iwc.points[j], d.layer[i]), T9) ]
  ELSE [ interpolation |-> \A i \in 1..Len(d.th0) : InterpOk(d, i) ]
   @@ [ withinRange |-> \A i \in 1..Len(d.th0) : Finite(d.th0[i]) ]

\* the verdict is total: a profile with non-finite entries or layer numbers outside the described layers is reported as such
\* (the remaining clauses are not evaluable on it)
FiniteDoc(d) == AllFinite(d.dry) /\ AllFinite(d.wp) /\ AllFinite(d.fc) /\ AllFinite(d.sat) /\ AllFinite(d.tau) /\ AllFinite(d.ksat)
                /\ AllFinite(d.pen) /\ AllFinite(d.zbot) /\ AllFinite(d.ztop) /\ AllFinite(d.zmid) /\ AllFinite(d.th0)
LayersIndexed(d) == /\ Len(d.layer) = Len(d.dzcm)
                    /\ \A i \in 1..Len(d.layer) : d.layer[i] >= 1 /\ (Len(d.layerDefs) > 0 => d.layer[i] <= Len(d.layerDefs))
JudgeDoc(d) == IF ~FiniteDoc(d) \/ ~LayersIndexed(d)
               THEN [ok |-> FALSE, profile |-> (IF FiniteDoc(d) THEN {} ELSE {"finite"}) \cup (IF LayersIndexed(d) THEN {} ELSE {"layerIndex"}), iwc |-> {}]
               ELSE
               LET a == ProfileC(d) b == IwcC(d)
               IN [ok |-> (\A k \in DOMAIN a : a[k]) /\ (\A k \in DOMAIN b : b[k]),
                   profile |-> {k \in DOMAIN a : ~a[k]}, iwc |-> {k \in DOMAIN b : ~b[k]}]
VARIABLES did, verdict
dvars == <<did, verdict>>
DInit == did \in 1..ND /\ verdict = JudgeDoc(Docs[did])
DNext == /\ verdict # <<>> /\ PrintT(ToJson(<<"VERDICT", did, verdict>>)) /\ verdict' = <<>> /\ UNCHANGED did
DSpec == DInit /\ [][DNext]_dvars
=============================================================================
