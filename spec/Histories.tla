----------------------------- MODULE Histories -----------------------------
(***************************************************************************)
(* API-level histories over a small pool of model instances (properties      *)
(* C10, C11): New(i,c) constructs instance i from configuration c, Step(i,k)  *)
(* advances it by k days (initialising it on the first call), Finish(i) runs  *)
(* it to termination, Reject(i,c) is a failed attempt to build an instance     *)
(* from an invalid configuration.  Operations on different instances          *)
(* interleave                                                                *)
(* arbitrarily.  The specification's statement: the observable result of      *)
(* instance i - modelled as obs[i] = <<configuration, days simulated>> - is a  *)
(* function of its OWN configuration and call history only (Isolation), and   *)
(* nothing an instance does changes another (NonInterference).                *)
(*                                                                          *)
(* TLC enumerates every interleaving up to MaxOps operations; each complete   *)
(* behaviour is printed (history variable hist) and replayed on the real      *)
(* code, where every instance's tables are compared with its solo baseline    *)
(* (spec/Equiv.tla, rule "identity").                                         *)
(***************************************************************************)
EXTENDS Integers, Sequences, FiniteSets, Json, TLC

CONSTANTS Inst, Cfgs, StepSizes, MaxOps, Horizon,   \* Horizon: days after which an instance is finished
          BadCfgs                                    \* configurations the model rejects (construction / initialisation raises)

VARIABLES st, hist
vars == <<st, hist>>

None == [cfg |-> 0, phase |-> "none", days |-> 0]
Init == st = [i \in Inst |-> None] /\ hist = <<>>

New(i, c) == /\ st[i].phase = "none"
             /\ st' = [st EXCEPT ![i] = [cfg |-> c, phase |-> "new", days |-> 0]]
             /\ hist' = Append(hist, [op |-> "new", i |-> i, c |-> c])
Step(i, k) == /\ st[i].phase \in {"new", "running"}
              /\ LET d == IF st[i].days + k >= Horizon THEN Horizon ELSE st[i].days + k
                 IN st' = [st EXCEPT ![i] = [@ EXCEPT !.days = d, !.phase = IF d = Horizon THEN "done" ELSE "running"]]
              /\ hist' = Append(hist, [op |-> "step", i |-> i, k |-> k])
Finish(i) == /\ st[i].phase \in {"new", "running"}
             /\ st' = [st EXCEPT ![i] = [@ EXCEPT !.days = Horizon, !.phase = "done"]]
             /\ hist' = Append(hist, [op |-> "finish", i |-> i])

\* running a finished instance again (run_model re-initialises it): the result is again that of its configuration run to termination
Rerun(i) == /\ st[i].phase = "done"
            /\ UNCHANGED st
            /\ hist' = Append(hist, [op |-> "rerun", i |-> i])

\* an attempt to build instance i from a configuration the model rejects: the attempt raises, nothing exists afterwards - and nothing
\* may be left behind that another instance could observe (class-level defaults, module-level tables)
Reject(i, c) == /\ st[i].phase = "none"
                /\ UNCHANGED st
                /\ hist' = Append(hist, [op |-> "reject", i |-> i, c |-> c])

Next == /\ Len(hist) < MaxOps
        /\ \/ \E i \in Inst, c \in Cfgs : New(i, c)
           \/ \E i \in Inst, c \in BadCfgs : Reject(i, c)
           \/ \E i \in Inst : Rerun(i)
           \/ \E i \in Inst, k \in StepSizes : Step(i, k)
           \/ \E i \in Inst : Finish(i)
Spec == Init /\ [][Next]_vars

\* the observable result of an instance
Obs(i) == <<st[i].cfg, st[i].days>>
\* own history of instance i: the operations that name it
Own(i) == SelectSeq(hist, LAMBDA o : o.i = i /\ o.op # "reject")
RECURSIVE Days(_, _)
Days(h, n) == IF n = 0 THEN 0
              ELSE LET o == h[n] p == Days(h, n - 1)
                   IN IF o.op = "new" THEN 0
                      ELSE IF o.op \in {"finish", "rerun"} THEN Horizon
                      ELSE IF p + o.k >= Horizon THEN Horizon ELSE p + o.k
\* C10: the result is a function of the instance's own configuration and own call history
Isolation == \A i \in Inst : st[i].phase # "none" =>
                 /\ st[i].days = Days(Own(i), Len(Own(i)))
                 /\ st[i].cfg = Own(i)[1].c
\* C10: an operation on one instance leaves every other instance unchanged
NonInterference == [][\A i \in Inst : (hist' # hist /\ hist'[Len(hist')].i # i) => st'[i] = st[i]]_vars
\* complete behaviours are exported for replay: every instance that exists has been run at least once
Complete == /\ \A i \in Inst : st[i].phase \in {"none", "running", "done"}
            /\ \E i \in Inst : st[i].phase # "none"
            /\ (Len(hist) = MaxOps \/ \A i \in Inst : st[i].phase \in {"none", "done"})
Export == Complete => PrintT(ToJson(<<"HISTORY", hist>>))
=============================================================================
