SPECIFICATION OSpec
CHECK_DEADLOCK FALSE
