----------------------------- MODULE ClockRel -----------------------------
(***************************************************************************)
(* The outer loop of AquaCrop-OSPy as pure operators: derivation of the      *)
(* season dates from the configuration (read_model_parameters) and one       *)
(* complete _perform_timestep at the level of the clock (top of              *)
(* solution_single_time_step, end-of-season test, check_model_is_finished,   *)
(* update_time, reset_initial_conditions' flag reset).                       *)
(*                                                                          *)
(* These operators are used unchanged by the model-checking instance         *)
(* (AquaClock.tla / MC_Clock) and by trace validation (Trace.tla), so the    *)
(* specification has one source of truth for the calendar.                   *)
(***************************************************************************)
EXTENDS Integers, Sequences, FiniteSets, Calendar

(***************************************************************************)
(* Season dates.  startYMD/endYMD are <<y,m,d>>, plantMD/harvMD <<m,d>>.     *)
(* harvMD is the latest harvest date in force (given by the user, or the     *)
(* default DefaultHarvMD below).                                             *)
(***************************************************************************)
DefaultHarvMD(plantMD, maturityCD) == MDAfter1990(plantMD, maturityCD + 30)

SingleYear(plantMD, harvMD) == MD1990(plantMD) < MD1990(harvMD)

\* the years in which a season is planted, before the "first planting on/after start" correction
PlantYears0(startYMD, endYMD, plantMD, harvMD) ==
  IF SingleYear(plantMD, harvMD)
  THEN LET endAdj == IF MD1990(<<endYMD[2], endYMD[3]>>) <= MD1990(plantMD) THEN endYMD[1] - 1 ELSE endYMD[1]
       IN startYMD[1] .. endAdj
  ELSE startYMD[1] .. (endYMD[1] - 1)

SetMin(S) == CHOOSE x \in S : \A y \in S : x <= y

PlantYears(startYMD, endYMD, plantMD, harvMD) ==
  LET py0 == PlantYears0(startYMD, endYMD, plantMD, harvMD)
      sd  == DayNo(startYMD[1], startYMD[2], startYMD[3])
  IN IF py0 = {} THEN {}
     ELSE LET f == SetMin(py0)
          IN IF DayNo(f, plantMD[1], plantMD[2]) < sd THEN py0 \ {f} ELSE py0

\* k-th (0-based) smallest element
Kth(S, k) == CHOOSE y \in S : Cardinality({z \in S : z < y}) = k

SeasonDates(startYMD, endYMD, plantMD, harvMD) ==
  LET py == PlantYears(startYMD, endYMD, plantMD, harvMD)
      n  == Cardinality(py)
      hy(y) == IF SingleYear(plantMD, harvMD) THEN y ELSE y + 1
  IN [ n     |-> n,
       plant |-> [k \in 1..n |-> DayNo(Kth(py, k - 1), plantMD[1], plantMD[2])],
       harv  |-> [k \in 1..n |-> DayNo(hy(Kth(py, k - 1)), harvMD[1], harvMD[2])] ]

(***************************************************************************)
(* Clock configuration record C:                                            *)
(*   startDay, endDay  day numbers;  plant, harv  sequences (1-based) of     *)
(*   day numbers;  nSeasons;  offSeason (BOOLEAN).                           *)
(* Clock state record c:                                                    *)
(*   tsc, season (-1 = before the first season), dap, mature, dead,          *)
(*   harvested, finished, nStats (rows of the seasonal summary).             *)
(* Environment of one step (what the clock cannot know by itself):           *)
(*   maturesNow : the crop reaches maturity today (calendar crops: the spec  *)
(*                computes it from dap; thermal crops: an input)             *)
(*   diesNow    : the canopy routine declares the crop dead today            *)
(***************************************************************************)
Plant(C, s) == C.plant[s + 1]
Harv(C, s)  == C.harv[s + 1]
DateOf(C, c) == C.startDay + c.tsc

InitSeason(C) == IF C.nSeasons > 0 /\ C.startDay = C.plant[1] THEN 0 ELSE -1

ClockInit(C) == [tsc |-> 0, season |-> InitSeason(C), dap |-> 0, mature |-> FALSE, dead |-> FALSE,
                 harvested |-> FALSE, finished |-> FALSE, nStats |-> 0]

\* growing season today?  (top of solution_single_time_step)
InSeason(C, c) ==
  /\ c.season >= 0
  /\ Plant(C, c.season) <= DateOf(C, c)
  /\ Harv(C, c.season) > DateOf(C, c)          \* the harvest date itself is no longer a growing-season day
  /\ ~c.mature /\ ~c.dead

\* one whole time step.  Result: [gs, dap, mature, dead, harvestNow, next (clock), reset, jumped]
ClockStep(C, c, maturesNow, diesNow) ==
  LET date  == DateOf(C, c)
      gs    == InSeason(C, c)
      dap1  == IF gs THEN c.dap + 1 ELSE 0
      mat1  == c.mature \/ (gs /\ maturesNow)
      dead1 == c.dead \/ (gs /\ diesNow)
      hnow  == /\ c.season >= 0
               /\ (mat1 \/ dead1 \/ Harv(C, c.season) = date + 1)
               /\ ~c.harvested
      harv1 == c.harvested \/ hnow
      fin1  == (date + 1 >= C.endDay) \/ (harv1 /\ c.season = C.nSeasons - 1)
      stay  == [tsc |-> c.tsc, season |-> c.season, dap |-> dap1, mature |-> mat1, dead |-> dead1,
                harvested |-> harv1, finished |-> fin1, nStats |-> c.nStats + (IF hnow THEN 1 ELSE 0)]
      fresh(t, s) == [tsc |-> t, season |-> s, dap |-> 0, mature |-> FALSE, dead |-> FALSE,
                      harvested |-> FALSE, finished |-> FALSE, nStats |-> stay.nStats]
      jump  == ~fin1 /\ harv1 /\ ~C.offSeason
      next  == IF fin1 THEN stay
               ELSE IF jump
                    THEN IF c.season < C.nSeasons - 1
                         THEN fresh(Plant(C, c.season + 1) - C.startDay, c.season + 1)
                         ELSE stay            \* unreachable: harvest of the last season finishes the run
                    ELSE IF c.season < C.nSeasons - 1 /\ date + 1 = Plant(C, c.season + 1)
                         THEN fresh(c.tsc + 1, c.season + 1)
                         ELSE [stay EXCEPT !.tsc = c.tsc + 1]
  IN [gs |-> gs, dap |-> dap1, mature |-> mat1, dead |-> dead1, harvestNow |-> hnow, next |-> next,
      reset |-> (~fin1 /\ next.season # c.season), jumped |-> (jump /\ c.season < C.nSeasons - 1)]

\* calendar-day crops: maturity is reached when dap >= maturity
CalendarMatures(C, c, maturity) == InSeason(C, c) /\ c.dap + 1 >= maturity
=============================================================================
