CONSTANTS
 Windows <- cWindowsQ
 CallSizes = {0,1,2,3,5}
SPECIFICATION Spec
INVARIANT TypeOK
INVARIANT DapCounts
INVARIANT MaturityFirstDay
INVARIANT SeasonEndCause
INVARIANT StatsOrdered
INVARIANT StatsNoSkip
INVARIANT SeasonsConsecutive
INVARIANT FinishCause
INVARIANT VisibleIffFinished
INVARIANT DoneMeansFinished
PROPERTY Chrono
PROPERTY NoSkip
PROPERTY AtMostOnce
PROPERTY HarvestOnlyOnce
PROPERTY Termination
CHECK_DEADLOCK FALSE
