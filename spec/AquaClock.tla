----------------------------- MODULE AquaClock -----------------------------
(***************************************************************************)
(* The outer loop of AquaCropModel as a state machine:                       *)
(*   Initialize ; ( RunCall(k) ; DayStep^{<=k} ; ReturnCall )*               *)
(* on the real Gregorian calendar.  One DayStep is one _perform_timestep     *)
(* (ClockRel!ClockStep).  Crop death and thermal maturity are environment    *)
(* choices.  Properties C06 (structure of the seasonal summary), C07         *)
(* (calendar), C09 (call slicing) are stated below and checked by TLC for    *)
(* every window of the instance (MC_Clock*.cfg).                             *)
(***************************************************************************)
EXTENDS ClockRel, TLC

CONSTANTS Windows,               \* set of window records [start, end : <<y,m,d>>, plant : <<m,d>>,
                                 \*   harv : <<m,d>> or <<>> (derive: planting + maturity + 30 days),
                                 \*   maturity : calendar days from sowing to maturity,
                                 \*   thermal : BOOLEAN (maturity reached in thermal time: an environment choice <= maturity),
                                 \*   off : BOOLEAN (simulate the off-season), die : BOOLEAN (crop may die on any in-season day)]
          CallSizes              \* set of step counts a run call may use (0 = till termination)

VARIABLES w,                     \* the window of this behaviour (chosen in Init, never changes)
          C,                     \* clock configuration derived from w (ClockRel): a constant of the behaviour
          clk,                   \* clock record (ClockRel)
          phase,                 \* "idle" | "running" | "done"
          budget,                \* steps left in the current run call (-1 = till termination)
          nsim,                  \* number of steps simulated so far               (history)
          stats,                 \* seasonal summary: sequence of [season, step, date] (history)
          last,                  \* observation of the most recent step: [gs, dap, date, season, matured, died] (history)
          visible                \* the seasonal summary is visible to the caller (has_model_finished)

vars == <<w, C, clk, phase, budget, nsim, stats, last, visible>>

HarvMDOf(x) == IF x.harv # <<>> THEN x.harv ELSE DefaultHarvMD(x.plant, x.maturity)
Derive(x) == LET sd == SeasonDates(x.start, x.end, x.plant, HarvMDOf(x))
             IN [startDay |-> DayNo(x.start[1], x.start[2], x.start[3]),
                 endDay   |-> DayNo(x.end[1], x.end[2], x.end[3]),
                 plant |-> sd.plant, harv |-> sd.harv, nSeasons |-> sd.n, offSeason |-> x.off]
NSteps == C.endDay - C.startDay + 1
StartYMD == w.start
PlantMD == w.plant
MaturityCD == w.maturity
Thermal == w.thermal
OffSeason == w.off
CanDie == w.die

\* documented input constraints of the clock: start < end, at least one season in the window
ValidWindow(x) == LET d == Derive(x) IN d.startDay < d.endDay /\ d.nSeasons >= 1

Init == /\ w \in {x \in Windows : ValidWindow(x)} /\ C = Derive(w)
        /\ clk = ClockInit(C) /\ phase = "idle" /\ budget = 0
        /\ nsim = 0 /\ stats = <<>> /\ visible = FALSE
        /\ last = [gs |-> FALSE, dap |-> 0, date |-> 0, tsc |-> -1, season |-> -1, matured |-> FALSE, died |-> FALSE, harvestNow |-> FALSE]

RunCall(k) == /\ phase = "idle" /\ ~clk.finished
              /\ phase' = "running" /\ budget' = (IF k = 0 THEN -1 ELSE k)
              /\ UNCHANGED <<w, C, clk, nsim, stats, last, visible>>

DayStep(matures, dies) ==
  /\ phase = "running" /\ budget # 0 /\ ~clk.finished
  /\ LET r == ClockStep(C, clk, matures, dies)
     IN /\ clk' = r.next
        /\ last' = [gs |-> r.gs, dap |-> r.dap, date |-> DateOf(C, clk), tsc |-> clk.tsc, season |-> clk.season,
                     matured |-> (r.mature /\ ~clk.mature), died |-> (r.dead /\ ~clk.dead), harvestNow |-> r.harvestNow]
        /\ nsim' = nsim + 1
        /\ stats' = IF r.harvestNow
                    THEN Append(stats, [season |-> clk.season, step |-> clk.tsc, date |-> DateOf(C, clk) + 1])
                    ELSE stats
  /\ budget' = IF budget > 0 THEN budget - 1 ELSE budget
  /\ UNCHANGED <<w, C, phase, visible>>

ReturnCall == /\ phase = "running" /\ (budget = 0 \/ clk.finished)
              /\ phase' = (IF clk.finished THEN "done" ELSE "idle")
              /\ visible' = clk.finished
              /\ budget' = 0
              /\ UNCHANGED <<w, C, clk, nsim, stats, last>>

Env == { <<m, d>> \in BOOLEAN \X BOOLEAN :
           /\ (d => CanDie)
           /\ (~Thermal => m = CalendarMatures(C, clk, MaturityCD))
           /\ (Thermal /\ CalendarMatures(C, clk, MaturityCD) => m) }   \* thermal maturity no later than MaturityCD

Next == \/ \E k \in CallSizes : RunCall(k)
        \/ \E e \in Env : DayStep(e[1], e[2])
        \/ ReturnCall

Spec == Init /\ [][Next]_vars /\ WF_vars(Next)

-----------------------------------------------------------------------------
(* Properties *)

TypeOK == /\ clk.tsc \in 0..(NSteps - 1) /\ clk.season \in -1..(C.nSeasons - 1)
          /\ clk.dap >= 0 /\ clk.nStats = Len(stats)

\* C07: each day at most once and in chronological order (last.tsc is the most recent simulated step, so
\* "not simulated before" is "later than every simulated step")
Chrono == [][clk'.tsc >= clk.tsc]_clk
AtMostOnce == [][last' # last => last'.tsc > last.tsc]_last
\* C07: with the off-season simulated no day is skipped; without it the only jump is harvest -> next planting date
NoSkip == [][ \/ clk'.tsc \in {clk.tsc, clk.tsc + 1}
              \/ (/\ ~OffSeason /\ clk.season >= 0 /\ clk.season < C.nSeasons - 1
                  /\ clk'.season = clk.season + 1
                  /\ clk'.tsc = Plant(C, clk'.season) - C.startDay
                  /\ Len(stats') > 0 /\ stats'[Len(stats')].season = clk.season) ]_<<clk, stats>>
\* C07: days after planting count 1,2,3,... without gaps from each planting date
DapCounts == /\ (last.gs => last.season >= 0 /\ last.dap = last.date - Plant(C, last.season) + 1)
             /\ (~last.gs => last.dap = 0)
\* C07: a season ends on the first day the crop reaches maturity, earlier only if the crop died or the latest
\* harvest date is reached
MaturityFirstDay == last.gs => /\ last.dap <= MaturityCD
                               /\ (~Thermal => (last.matured <=> last.dap = MaturityCD))
SeasonEndCause == last.harvestNow =>
                    \/ last.matured \/ last.died
                    \/ Harv(C, last.season) = last.date + 1
                    \/ ~last.gs          \* season already over (crop matured/died on an earlier day is impossible: harvested is set then)
HarvestOnlyOnce == [][Len(stats') > Len(stats) => (Len(stats) = 0 \/ stats[Len(stats)].season < stats'[Len(stats')].season)]_stats
\* C06: exactly one summary row per season that reached harvest, in season order
StatsOrdered == \A i \in 1..Len(stats) : /\ (i > 1 => stats[i].season > stats[i - 1].season /\ stats[i].step > stats[i - 1].step)
                                         /\ stats[i].date = C.startDay + stats[i].step + 1
StatsNoSkip == clk.finished /\ ~OffSeason => \A i \in 1..Len(stats) : stats[i].season = i - 1 + stats[1].season
\* C07: seasons on the planting day of consecutive years, the first one on or after the start date
SeasonsConsecutive == nsim = 0 /\ phase = "idle" =>

  /\ \A k \in 1..C.nSeasons : LET p == YMDOf(C.plant[k]) IN p[2] = PlantMD[1] /\ p[3] = PlantMD[2]
  /\ \A k \in 2..C.nSeasons : YMDOf(C.plant[k])[1] = YMDOf(C.plant[k - 1])[1] + 1
  /\ C.nSeasons >= 1 => C.plant[1] >= C.startDay
  /\ C.nSeasons >= 1 => LET y == YMDOf(C.plant[1])[1]
                        IN y = StartYMD[1] \/ DayNo(y - 1, PlantMD[1], PlantMD[2]) < C.startDay
\* C07: termination cause
FinishCause == clk.finished =>
                 \/ DateOf(C, clk) + 1 >= C.endDay
                 \/ (clk.harvested /\ clk.season = C.nSeasons - 1)
\* C09: the model reports itself unfinished (no summary) until termination; a call never runs past it
VisibleIffFinished == (phase # "running") => (visible <=> clk.finished)
DoneMeansFinished == phase = "done" => clk.finished
\* C09: the state reached depends only on the number of steps taken, not on how calls slice them
\* (for the deterministic instances: clk equals the clock of the uninterrupted reference run after the same
\*  number of steps, whatever the sequence of calls)
RefClk[n \in 0..NSteps] ==
  IF n = 0 THEN ClockInit(C)
  ELSE LET p == RefClk[n - 1]
       IN IF p.finished THEN p ELSE ClockStep(C, p, CalendarMatures(C, p, MaturityCD), FALSE).next
SliceInvariant == (~Thermal /\ ~CanDie) => clk = RefClk[nsim]
\* C07: the run always terminates
Termination == <>(phase = "done")
=============================================================================
