------------------------------ MODULE AquaIrr ------------------------------
(***************************************************************************)
(* The irrigation decision over a season as a state machine whose ONLY        *)
(* transition relation is IrrRel!Decision (the exact relation that Trace.tla  *)
(* evaluates on every recorded decision): each day the environment chooses    *)
(* the estimated depletion, TAW, the growth stage and today's scheduled depth; *)
(* the depth applied is any value the decision relation admits.  TLC checks    *)
(* that the relation implies the contract of property C13 as it is worded:     *)
(* nothing outside a season or under the rainfed strategy, a single            *)
(* application never above the daily maximum, the season's total never above    *)
(* the seasonal maximum, interval irrigation only on days 1, 1+k, 1+2k, ...,    *)
(* scheduled / constant-depth irrigation exactly the scheduled / configured     *)
(* depth (capped), no surface irrigation in net mode.                          *)
(***************************************************************************)
EXTENDS IrrRel, TLC

CONSTANTS Methods, MaxIrrSet, MaxSeasonSet, IntervalSet, EffSet, DepthSet, SchedSet, DeplSet, TawSet, SeasonLen

VARIABLES cfg, dap, gs, irrCum, last
vars == <<cfg, dap, gs, irrCum, last>>

H(k) == <<k * 5000, 0>>                    \* k half-units
Amounts == {H(k) : k \in 0..40}
Smt == <<Units(40), Units(60), Units(70), Units(30)>>

Init == /\ cfg \in [method : Methods, maxIrr : MaxIrrSet, maxSeason : MaxSeasonSet, interval : IntervalSet, appEff : EffSet, depth : DepthSet]
        /\ dap = 0 /\ gs = FALSE /\ irrCum = Z
        /\ last = [irr |-> Z, gs |-> FALSE, dap |-> 0, sched |-> Z]

Args(d, t, st, sc, x) ==
  [method |-> cfg.method, gs |-> gs, dap |-> dap + 1, stage |-> st, smt |-> Smt, appEff |-> Units(cfg.appEff),
   maxIrr |-> H(cfg.maxIrr), interval |-> cfg.interval, sched |-> H(sc), depth |-> H(cfg.depth), maxSeason |-> H(cfg.maxSeason),
   irrCumPrev |-> irrCum, depl |-> H(d), taw |-> H(t), irr |-> x, irrCum |-> Add(irrCum, x)]

\* candidate depths: the relation admits at most the (capped) amount of the strategy or (capped) zero; both are offered and
\* Decision filters them, so the action still ranges over everything the relation allows on this lattice
Candidates(a) == {Capped(a, Z), Capped(a, Max(Amount(a), Z)), Capped(a, Max(Min(a.maxIrr, a.sched), Z)), Capped(a, Max(Min(a.maxIrr, a.depth), Z))}
Day == /\ gs /\ dap < SeasonLen
       /\ \E d \in DeplSet, t \in TawSet, st \in 1..4, sc \in SchedSet :
          \E x \in Candidates(Args(d, t, st, sc, Z)) :
            /\ Decision(Args(d, t, st, sc, x))
            /\ irrCum' = Add(irrCum, x)
            /\ last' = [irr |-> x, gs |-> TRUE, dap |-> dap + 1, sched |-> H(sc)]
       /\ dap' = dap + 1 /\ UNCHANGED <<cfg, gs>>
\* a day outside the season: the only admissible depth is zero and the seasonal counter restarts
Fallow == /\ ~gs
          /\ \E x \in {Z, H(1)} : Decision(Args(0, 2, 1, 0, x)) /\ last' = [irr |-> x, gs |-> FALSE, dap |-> 0, sched |-> Z]
          /\ irrCum' = Z /\ UNCHANGED <<cfg, dap, gs>>
Plant == ~gs /\ gs' = TRUE /\ dap' = 0 /\ irrCum' = Z /\ UNCHANGED <<cfg, last>>
Harvest == gs /\ dap >= 1 /\ gs' = FALSE /\ dap' = 0 /\ UNCHANGED <<cfg, irrCum, last>>
Next == Day \/ Fallow \/ Plant \/ Harvest
Spec == Init /\ [][Next]_vars

OffSeasonZero == ~last.gs => IsZero(last.irr)
RainfedZero   == cfg.method = 0 => IsZero(last.irr)
NetNoSurface  == cfg.method = 4 => IsZero(last.irr)
DailyMax      == cfg.method \in {1, 2, 3, 5} => Le(last.irr, H(cfg.maxIrr))
SeasonMax     == Le(irrCum, H(cfg.maxSeason))
IntervalDays  == (cfg.method = 2 /\ IsPos(last.irr)) => (last.dap - 1) % cfg.interval = 0
ScheduledOnly == (cfg.method = 3 /\ last.gs) => Le(last.irr, Min(last.sched, H(cfg.maxIrr)))
ConstantDepth == (cfg.method = 5 /\ last.gs) => Le(last.irr, Min(H(cfg.depth), H(cfg.maxIrr)))
NonNegative   == Ge(last.irr, Z)
=============================================================================
