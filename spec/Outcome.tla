------------------------------ MODULE Outcome ------------------------------
(***************************************************************************)
(* Property C16 as an oracle on run outcomes.  A document describes one run   *)
(* of the real code on a configuration that satisfies the documented input    *)
(* constraints:                                                              *)
(*   cfg     : [thermal (crop calendar in thermal time, natively or by        *)
(*              conversion), weatherCovers (the weather table covers the      *)
(*              window), years (end year - start year), datesWellFormed]       *)
(*   outcome : [status ("completed" | "rejected" | "crashed" | "timeout"),     *)
(*              phase ("construct" | "init" | "season_start" | "step"),        *)
(*              reason (classification of the message)]                       *)
(*   nonfinite : number of non-finite cells in the three daily tables and the  *)
(*              summary (the water-table depth column is exempt without a      *)
(*              table), finished : the run reported termination                *)
(* Allowed outcomes: completion with only finite numbers, or one of the        *)
(* documented rejections, raised where the documentation says (constructor,    *)
(* initialisation, or the start of a season).                                  *)
(***************************************************************************)
EXTENDS Integers, Sequences, FiniteSets, Json, IOUtils, TLC

Docs == JsonDeserialize(IOEnv.TRACE_FILE)
ND == Len(Docs)
VARIABLES did, verdict
vars == <<did, verdict>>

EarlyPhases == {"construct", "init", "season_start"}
AllowedReject(d) ==
  /\ d.outcome.status = "rejected"
  /\ d.outcome.phase \in EarlyPhases
  /\ \/ (d.outcome.reason = "dateformat" /\ ~d.cfg.datesWellFormed)
     \/ (d.outcome.reason = "weather" /\ ~d.cfg.weatherCovers)
     \/ (d.outcome.reason = "span" /\ d.cfg.years > 580)
     \/ (d.outcome.reason \in {"gdd", "oneyear"} /\ d.cfg.thermal)
Completed(d) == d.outcome.status = "completed" /\ d.finished /\ d.nonfinite = 0
Judge(d) == [ok |-> Completed(d) \/ AllowedReject(d),
             why |-> IF Completed(d) \/ AllowedReject(d) THEN "ok"
                     ELSE IF d.outcome.status = "completed" /\ d.nonfinite > 0 THEN "nonfinite"
                     ELSE IF d.outcome.status = "completed" THEN "unfinished"
                     ELSE IF d.outcome.status = "timeout" THEN "nontermination"
                     ELSE IF d.outcome.status = "rejected" THEN "rejection_not_permitted_here"
                     ELSE "exception"]
OInit == did \in 1..ND /\ verdict = Judge(Docs[did])
ONext == /\ verdict # <<>> /\ PrintT(ToJson(<<"VERDICT", did, verdict>>)) /\ verdict' = <<>> /\ UNCHANGED did
OSpec == OInit /\ [][ONext]_vars
=============================================================================
