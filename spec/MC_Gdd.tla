------------------------------- MODULE MC_Gdd -------------------------------
(***************************************************************************)
(* Exhaustive model checking of the transcribed growing-degree-day function  *)
(* (CropRel!GDD, methods 1-3) on the half-degree lattice for every           *)
(* (Tbase, Tupp) pair of the crop catalogue: range [0, Tupp - Tbase] and      *)
(* monotonicity in both temperatures (property C17, piecewise-linear part).   *)
(***************************************************************************)
EXTENDS CropRel, TLC
CONSTANTS Pairs,      \* set of <<tbase, tupp>> in half degrees
          Lo, Hi      \* temperature lattice in half degrees
VARIABLES m, tb, tu, hx, hn
vars == <<m, tb, tu, hx, hn>>
T(h) == <<h * 5000, 0>>
\* (Tbase, Tupp) of the crop catalogue, in half degrees
cPairsAll == {<<0, 30>>, <<24, 70>>, <<11, 60>>, <<18, 60>>, <<16, 60>>, <<4, 52>>, <<4, 60>>, <<10, 60>>, <<6, 50>>, <<18, 64>>,
              <<8, 60>>, <<14, 56>>, <<0, 52>>, <<20, 60>>}
cLo == -60
cLoQ == -20
cPairsQuick == {<<0, 30>>, <<16, 60>>, <<24, 70>>, <<11, 60>>}
Init == /\ m \in 1..3 /\ \E p \in Pairs : tb = p[1] /\ tu = p[2]
        /\ hx \in Lo..Hi /\ hn \in Lo..Hi
Next == UNCHANGED vars
Spec == Init /\ [][Next]_vars
G(x, n) == GDD(m, T(tu), T(tb), T(x), T(n))
Range == Ge(G(hx, hn), Z) /\ Le(G(hx, hn), Sub(T(tu), T(tb)))
MonoMax == hx < Hi => Le(G(hx, hn), G(hx + 1, hn))
MonoMin == hn < Hi => Le(G(hx, hn), G(hx, hn + 1))
\* methods agree when both temperatures are inside [Tbase, Tupp]
Agree == (tb <= hn /\ hn <= hx /\ hx <= tu) => (GDD(1, T(tu), T(tb), T(hx), T(hn)) = GDD(2, T(tu), T(tb), T(hx), T(hn))
                                                /\ GDD(2, T(tu), T(tb), T(hx), T(hn)) = GDD(3, T(tu), T(tb), T(hx), T(hn)))
=============================================================================
