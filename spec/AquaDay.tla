------------------------------ MODULE AquaDay ------------------------------
(***************************************************************************)
(* The daily soil-water pipeline of solution_single_time_step as a           *)
(* pc-sequenced state machine over a small lattice, one action per stage, in *)
(* the implementation's order:                                              *)
(*   DayBegin, CheckGW, PreIrr, Drain, RainPartition, Irrigate, Infiltrate,  *)
(*   CapRise, Evaporate, Transpire, GwInflow, DayEnd (+ SeasonReset)         *)
(* (the crop stages do not touch water: they are the frame condition and are *)
(* folded into the neighbouring pc values).                                  *)
(*                                                                          *)
(* Every stage is a CONTRACT action: it ranges over ALL post-states that     *)
(* satisfy the stage relation of WaterRel.tla (the same relation that        *)
(* Trace.tla evaluates on recorded executions), i.e. over every possible     *)
(* drainage curve, curve-number formula, evaporation and root-extraction     *)
(* kernel.  TLC then checks that the stage contracts, composed in pipeline   *)
(* order, imply the day-level properties C01, C02, C03, C04 and C19 exactly   *)
(* as the property list words them.                                         *)
(*                                                                          *)
(* Lattice: water in whole units (Num pairs <<n,0>>), N compartments with    *)
(* capacities Dry <= Wp <= Fc <= Sat.                                        *)
(***************************************************************************)
EXTENDS WaterRel, TLC

CONSTANTS NComp,        \* number of compartments
          CapDry, CapFc, CapSat,   \* per-compartment capacities in units (sequences of naturals)
          Ksat1,        \* surface intake limit (units)
          KsatN,        \* percolation limit at the bottom (units)
          RainSet, IrrSet, EtSet,  \* daily rain / irrigation / evaporative demand choices (units)
          BundSeason,   \* bund height in season (0 = none)
          BundFallow,   \* bund height in fallow (0 = none)
          Tables,       \* set of water-table positions: 0 = no table configured, k in 1..N = first saturated compartment, N+1 = below the profile
          NetIrr,       \* BOOLEAN: net-irrigation strategy (method 4) instead of surface irrigation
          OffSeason,    \* BOOLEAN: the off-season is simulated (no reset of the water state at season start)
          Days

VARIABLES W, pond, pc, day, gs, dap,
          led,          \* the day's flux ledger (what the day's table row reports)
          begin,        \* water state at DayBegin (history, for the closure check)
          fcAdj,        \* adjusted field capacity of the day
          tab           \* water table position of the day

vars == <<W, pond, pc, day, gs, dap, led, begin, fcAdj, tab>>

Comp == 1..NComp
U(n) == <<n, 0>>
KK == [N |-> NComp, Wdry |-> [i \in Comp |-> U(CapDry[i])], Wwp |-> [i \in Comp |-> U(CapDry[i])],
       Wfc |-> [i \in Comp |-> U(CapFc[i])], Wsat |-> [i \in Comp |-> U(CapSat[i])],
       ksat |-> [i \in Comp |-> U(IF i = NComp THEN KsatN ELSE Ksat1)],
       zmid |-> [i \in Comp |-> U(i)]]          \* mid-depth of compartment i is i (table position k means depth k)
MaxCap == CHOOSE m \in 0..20 : (\A i \in Comp : CapSat[i] <= m) /\ (\E i \in Comp : CapSat[i] = m)
WSpace == {f \in [Comp -> {U(n) : n \in 0..MaxCap}] : \A i \in Comp : CapDry[i] <= f[i][1] /\ f[i][1] <= CapSat[i]}
Amt == {U(n) : n \in 0..12}
WS == [W |-> W, pond |-> pond]
HasTable == tab # 0
ZeroLed == [P |-> Z, irr |-> Z, irrEff |-> Z, inflCn |-> Z, infl |-> Z, runoff |-> Z, dp |-> Z, cr |-> Z, gwin |-> Z,
            es |-> Z, espot |-> Z, tr |-> Z, trpot |-> Z, irrnet |-> Z, preIrr |-> Z, crThick |-> Z]
BundH == IF gs THEN BundSeason ELSE BundFallow
BundsToday == BundH > 0

Init == /\ W \in {f \in WSpace : \A i \in Comp : f[i][1] >= CapDry[i]}
        /\ pond = Z /\ pc = "DayBegin" /\ day = 1 /\ gs \in BOOLEAN /\ dap = 0
        /\ led = ZeroLed /\ begin = [W |-> W, pond |-> Z] /\ fcAdj = KK.Wfc /\ tab \in Tables

DayBegin == /\ pc = "DayBegin"
            /\ \E p \in RainSet : led' = [ZeroLed EXCEPT !.P = U(p)]
            /\ begin' = WS /\ dap' = IF gs THEN dap + 1 ELSE 0
            /\ pc' = "CheckGW" /\ UNCHANGED <<W, pond, day, gs, fcAdj, tab>>

\* adjusted field capacity: between fc and sat; = sat at/below the table; = fc without a table or far above it
CheckGW == /\ pc = "CheckGW"
           /\ \E f \in [Comp -> {U(n) : n \in 0..MaxCap}] :
                /\ \A i \in Comp : /\ Le(KK.Wfc[i], f[i]) /\ Le(f[i], KK.Wsat[i])
                                   /\ (~HasTable \/ tab > i + 1 => f[i] = KK.Wfc[i])
                                   /\ (HasTable /\ i >= tab => f[i] = KK.Wsat[i])
                /\ fcAdj' = f
           /\ pc' = "PreIrr" /\ UNCHANGED <<W, pond, day, gs, dap, led, begin, tab>>

PreIrr == /\ pc = "PreIrr"
          /\ \E w2 \in WSpace :
               LET q == Sub(Sum(w2), Sum(W)) IN
               /\ Rel(PreIrrC(KK, WS, [W |-> w2, pond |-> pond], [preIrr |-> q, enabled |-> gs /\ NetIrr /\ dap = 1]))
               /\ W' = w2 /\ led' = [led EXCEPT !.preIrr = q]
          /\ pc' = "Drain" /\ UNCHANGED <<pond, day, gs, dap, begin, fcAdj, tab>>

Drain == /\ pc = "Drain"
         /\ \E w2 \in WSpace :
              LET dp == Sub(Sum(W), Sum(w2)) IN
              /\ Rel(DrainC(KK, WS, [W |-> w2, pond |-> pond], [dp |-> dp, fcAdj |-> fcAdj]))
              /\ W' = w2 /\ led' = [led EXCEPT !.dp = dp]
         /\ pc' = "RainPartition" /\ UNCHANGED <<pond, day, gs, dap, begin, fcAdj, tab>>

RainPartition == /\ pc = "RainPartition"
                 /\ \E r \in Amt :
                      LET i == Sub(led.P, r) IN
                      /\ Rel(RainC(KK, WS, WS, [P |-> led.P, runoff |-> r, infl |-> i, blocked |-> BundsToday]))
                      /\ led' = [led EXCEPT !.runoff = r, !.inflCn = i]
                 /\ pc' = "Irrigate" /\ UNCHANGED <<W, pond, day, gs, dap, begin, fcAdj, tab>>

\* the decision itself is modelled exactly in IrrRel / MC_Irr; here any amount from IrrSet, only in season, none in net mode
Irrigate == /\ pc = "Irrigate"
            /\ \E q \in IrrSet : led' = [led EXCEPT !.irr = IF gs /\ ~NetIrr THEN U(q) ELSE Z,
                                                    !.irrEff = IF gs /\ ~NetIrr THEN U(q) ELSE Z]
            /\ pc' = "Infiltrate" /\ UNCHANGED <<W, pond, day, gs, dap, begin, fcAdj, tab>>

Infiltrate ==
  /\ pc = "Infiltrate"
  /\ \E w2 \in WSpace, dp \in Amt :
       LET a0 == [inflCn |-> led.inflCn, irrEff |-> led.irrEff, gs |-> gs, bunds |-> BundsToday, zBund |-> U(BundH),
                  ksat1 |-> U(Ksat1), dp0 |-> led.dp, runoff0 |-> led.runoff, dp |-> Add(led.dp, dp), runoff |-> led.runoff, infl |-> Z]
           back  == Max(InfBack(WS, [W |-> w2, pond |-> Z], a0), Z)
           pond1 == InfPond1(WS, a0)
           p2    == IF BundsToday THEN Min(Add(pond1, back), U(BundH)) ELSE Z
           roD   == IF BundsToday THEN Add(InfRoIni(WS, a0), Sub(Add(pond1, back), p2)) ELSE Add(InfRoIni(WS, a0), back)
           a     == [a0 EXCEPT !.runoff = Add(led.runoff, roD), !.infl = Sub(InfIn(a0), roD)]
       IN /\ Rel(InfiltrateC(KK, WS, [W |-> w2, pond |-> p2], a))
          /\ W' = w2 /\ pond' = p2
          /\ led' = [led EXCEPT !.dp = a.dp, !.runoff = a.runoff, !.infl = a.infl]
  /\ pc' = "CapRise" /\ UNCHANGED <<day, gs, dap, begin, fcAdj, tab>>

\* on the lattice the reported capillary rise is exact (the 1e-4 rounding is below the grid)
CapRise == /\ pc = "CapRise"
           /\ \E w2 \in WSpace :
                LET cr == Sub(Sum(w2), Sum(W)) IN
                /\ Rel(CapRiseC(KK, WS, [W |-> w2, pond |-> pond],
                                [cr |-> cr, wt |-> HasTable, fcAdj |-> fcAdj, thick |-> [i \in Comp |-> Z], slack |-> [i \in Comp |-> Z]]))
                /\ W' = w2 /\ led' = [led EXCEPT !.cr = cr]
           /\ pc' = "Evaporate" /\ UNCHANGED <<pond, day, gs, dap, begin, fcAdj, tab>>

Evaporate == /\ pc = "Evaporate"
             /\ \E w2 \in WSpace, p2 \in {U(n) : n \in 0..pond[1]}, pot \in EtSet :
                  LET es == Sub(Stored(WS), Stored([W |-> w2, pond |-> p2])) IN
                  /\ Rel(EvapC(KK, WS, [W |-> w2, pond |-> p2], [es |-> es, espot |-> U(pot)]))
                  /\ W' = w2 /\ pond' = p2 /\ led' = [led EXCEPT !.es = es, !.espot = U(pot)]
             /\ pc' = "Transpire" /\ UNCHANGED <<day, gs, dap, begin, fcAdj, tab>>

Transpire == /\ pc = "Transpire"
             /\ \E w2 \in WSpace, p2 \in {U(n) : n \in 0..pond[1]}, pot \in EtSet, net \in {U(n) : n \in 0..(IF NetIrr THEN 2 ELSE 0)} :
                  LET tr == Sub(net, Sub(Stored([W |-> w2, pond |-> p2]), Stored(WS))) IN
                  /\ Rel(TranspC(KK, WS, [W |-> w2, pond |-> p2],
                                 [tr |-> tr, trpot |-> IF gs THEN U(pot) ELSE Z, irrnet |-> net, gs |-> gs, net |-> NetIrr]))
                  /\ W' = w2 /\ pond' = p2
                  /\ led' = [led EXCEPT !.tr = tr, !.trpot = IF gs THEN U(pot) ELSE Z, !.irrnet = net]
             /\ pc' = "GwInflow" /\ UNCHANGED <<day, gs, dap, begin, fcAdj, tab>>

GwInflow == /\ pc = "GwInflow"
            /\ \E w2 \in WSpace :
                 LET q == Sub(Sum(w2), Sum(W)) IN
                 /\ Rel(GwInC(KK, WS, [W |-> w2, pond |-> pond],
                              [gwin |-> q, wtInSoil |-> HasTable /\ tab <= NComp, first |-> IF HasTable /\ tab <= NComp THEN tab ELSE 0]))
                 /\ W' = w2 /\ led' = [led EXCEPT !.gwin = q]
            /\ pc' = "DayEnd" /\ UNCHANGED <<pond, day, gs, dap, begin, fcAdj, tab>>

\* next day: the season may start or end (bunds appear / are removed with water standing), the table may move;
\* at a season start without off-season simulation the water state is reset to the configured initial state
DayEnd == /\ pc = "DayEnd" /\ day < Days
          /\ day' = day + 1 /\ pc' = "DayBegin"
          /\ \E g \in BOOLEAN, t2 \in Tables :
               /\ gs' = g /\ tab' = (IF tab = 0 THEN 0 ELSE IF t2 = 0 THEN tab ELSE t2)
               /\ IF g /\ ~gs /\ ~OffSeason
                  THEN W' \in {f \in WSpace : \A i \in Comp : f[i] = KK.Wfc[i]} /\ pond' = Z   \* SeasonReset (initial state: field capacity)
                  ELSE UNCHANGED <<W, pond>>
          /\ UNCHANGED <<dap, led, begin, fcAdj>>

Next == DayBegin \/ CheckGW \/ PreIrr \/ Drain \/ RainPartition \/ Irrigate \/ Infiltrate \/ CapRise
        \/ Evaporate \/ Transpire \/ GwInflow \/ DayEnd
Spec == Init /\ [][Next]_vars

-----------------------------------------------------------------------------
AtEnd == pc = "DayEnd"
Ledger == [P |-> led.P, irrEff |-> led.irrEff, infl |-> led.infl, runoff |-> led.runoff, dp |-> led.dp, cr |-> led.cr,
           gwin |-> led.gwin, es |-> led.es, espot |-> led.espot, tr |-> led.tr, trpot |-> led.trpot,
           irrDay |-> IF ~gs THEN Z ELSE IF NetIrr THEN Add(led.irrnet, led.preIrr) ELSE led.irr,
           netAdd |-> IF NetIrr THEN Add(led.irrnet, led.preIrr) ELSE Z,
           crAllowThick |-> Z, gs |-> gs, bundsToday |-> BundsToday, zBund |-> U(BundH),
           method |-> IF NetIrr THEN 4 ELSE 1, nRoot |-> 0, wr |-> Sum(W), wt |-> HasTable, hasZ |-> HasTable,
           zgw |-> U(tab)]
C01_Closure   == AtEnd => Rel(DayClosureC(KK, begin, WS, Ledger))
C02_Partition == AtEnd => Rel(DayPartitionC(KK, begin, Ledger))
C03_Bounds    == AtEnd => Rel(DayBoundsC(KK, WS, Ledger))
C04_Signs     == AtEnd => Rel(DaySignsC(KK, Ledger))
C19_Table     == AtEnd => Rel(DayGwC(KK, WS, Ledger))
\* C01 carry-over: between DayEnd and the next DayBegin the stored water is unchanged, except for the documented reset
C01_CarryOver == [][pc = "DayEnd" /\ pc' = "DayBegin" =>
                      \/ (W' = W /\ pond' = pond)
                      \/ (gs' /\ ~gs /\ ~OffSeason /\ W' = KK.Wfc /\ pond' = Z)]_vars
\* C03 at every stage boundary (localisation)
C03_Always == W \in WSpace /\ Ge(pond, Z)
=============================================================================
