CONSTANTS
 Inst = {1, 2}
 Cfgs = {1, 2}
 StepSizes = {1, 3}
 MaxOps = 5
 Horizon = 4
 BadCfgs = {9}
SPECIFICATION Spec
INVARIANT Isolation
INVARIANT Export
PROPERTY NonInterference
CHECK_DEADLOCK FALSE
