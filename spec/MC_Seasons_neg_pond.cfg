CONSTANTS
 NSeasons = 3
 SeasonLen = 4
 K = 2
 MaxW = 2
 W0 = 1
 Cap = 2
 ResetSet = {"w", "cnt", "dem", "cum", "mature", "dead"}
SPECIFICATION Spec
INVARIANT TypeOK
INVARIANT Independent
INVARIANT SameOutcome
CHECK_DEADLOCK FALSE
