----------------------------- MODULE SoilBuild -----------------------------
(***************************************************************************)
(* Construction of the soil profile (property C18) as an exact state         *)
(* machine in integer centimetres (the implementation rounds compartment      *)
(* thicknesses and their running sums to 2 decimals of a metre):              *)
(*   CreateDf(dz)      Soil.create_df: compartments, running sums              *)
(*   AddLayer(thick)   Soil.add_layer: compartments whose bottom lies within   *)
(*                     the layer get the next layer number                    *)
(*   FillNan           Soil.fill_nan: compartments below the last defined      *)
(*                     layer inherit it                                       *)
(*   DeepenStep        one iteration of the loop of read_model_parameters      *)
(*                     "while zSoil < Zmax + 0.1": the deepest compartment     *)
(*                     thinner than 25 cm grows by 10 cm                       *)
(*   Done                                                                     *)
(* and the well-formedness predicate of the finished profile.                 *)
(*                                                                          *)
(* The loop test is made in doubles: for zSoil = Zmax + 10 cm exactly the      *)
(* implementation may or may not take one more step (1.3 + 0.1 > 1.4 in        *)
(* binary), so the guard is nondeterministic exactly at the tie; the property  *)
(* only requires the profile to end below Zmax.                               *)
(*                                                                          *)
(* The second half of the module judges profiles and initial water contents    *)
(* that the real code built (documents written by harness/soildoc.py).        *)
(***************************************************************************)
EXTENDS Integers, Sequences, FiniteSets, Json, TLC

CONSTANTS Configs        \* set of [dz : Seq(cm), layers : Seq(thickness cm), zmax : cm]
VARIABLES cfg, dz, layer, phase, nl, steps
vars == <<cfg, dz, layer, phase, nl, steps>>

RECURSIVE CumTo(_, _)
CumTo(s, n) == IF n = 0 THEN 0 ELSE CumTo(s, n - 1) + s[n]
Bottom(s, i) == CumTo(s, i)
Total(s) == CumTo(s, Len(s))
N == Len(dz)

Init == /\ cfg \in Configs /\ dz = cfg.dz /\ layer = [i \in 1..Len(cfg.dz) |-> 0] /\ phase = "layers" /\ nl = 0 /\ steps = 0

\* add_layer: first layer: bottom <= thickness; later layers: bottom <= thickness + bottom of the previous layer, not yet assigned
LastBottom == LET S == {i \in 1..N : layer[i] = nl} IN IF S = {} THEN 0 ELSE Bottom(dz, CHOOSE i \in S : \A j \in S : j <= i)
AddLayer == /\ phase = "layers" /\ nl < Len(cfg.layers)
            /\ LET t == cfg.layers[nl + 1]
                   base == IF nl = 0 THEN 0 ELSE LastBottom
               IN layer' = [i \in 1..N |-> IF layer[i] = 0 /\ Bottom(dz, i) <= t + base THEN nl + 1 ELSE layer[i]]
            /\ nl' = nl + 1 /\ UNCHANGED <<cfg, dz, phase, steps>>
\* fill_nan (forward fill of the layer number)
RECURSIVE FFill(_, _, _)
FFill(l, i, last) == IF i > Len(l) THEN <<>>
                     ELSE LET v == IF l[i] = 0 THEN last ELSE l[i] IN <<v>> \o FFill(l, i + 1, v)
FillNan == /\ phase = "layers" /\ nl = Len(cfg.layers)
           /\ layer' = FFill(layer, 1, 0) /\ phase' = "deepen" /\ UNCHANGED <<cfg, dz, nl, steps>>
\* deepening loop
Thin == {i \in 1..N : dz[i] < 25}
MustDeepen == Total(dz) < cfg.zmax + 10
Tie == Total(dz) = cfg.zmax + 10
DeepenStep == /\ phase = "deepen" /\ (MustDeepen \/ Tie) /\ Thin # {}
              /\ LET i == CHOOSE i \in Thin : \A j \in Thin : j <= i
                 IN dz' = [dz EXCEPT ![i] = @ + 10]
              /\ steps' = steps + 1 /\ UNCHANGED <<cfg, layer, phase, nl>>
Done == /\ phase = "deepen" /\ ~MustDeepen
        /\ phase' = "done" /\ UNCHANGED <<cfg, dz, layer, nl, steps>>
Next == AddLayer \/ FillNan \/ DeepenStep \/ Done
Spec == Init /\ [][Next]_vars /\ WF_vars(Next)

\* the deepest depth the loop can reach: a compartment grows in steps of 10 cm until it is at least 25 cm thick
Grown(d) == IF d >= 25 THEN d ELSE IF d + 10 >= 25 THEN d + 10 ELSE IF d + 20 >= 25 THEN d + 20 ELSE d + 30
RECURSIVE Reach(_, _)
Reach(s, n) == IF n = 0 THEN 0 ELSE Reach(s, n - 1) + Grown(s[n])
\* input constraint under which the loop terminates (NOT checked by the implementation: see known findings)
Deepenable(c) == Reach(c.dz, Len(c.dz)) >= c.zmax + 10
\* every layer must hold at least one compartment (add_layer indexes the last compartment of the previous layer)
RECURSIVE FitFrom(_, _, _, _)
FitFrom(c, k, base, from) ==          \* layer k starts at compartment `from`, previous layers end at depth base
  IF k > Len(c.layers) THEN TRUE
  ELSE LET S == {i \in from..Len(c.dz) : CumTo(c.dz, i) <= c.layers[k] + base}
       IN IF S = {} THEN (from > Len(c.dz))       \* no compartment left: fine only if all are assigned
          ELSE LET last == CHOOSE i \in S : \A j \in S : j <= i
               IN FitFrom(c, k + 1, CumTo(c.dz, last), last + 1)
LayersFit(c) == CumTo(c.dz, 1) <= c.layers[1] /\ FitFrom(c, 1, 0, 1)

WellFormedGeom == /\ \A i \in 1..N : dz[i] > 0
                  /\ Total(dz) >= cfg.zmax + 10                                 \* ends below the maximum rooting depth
                  /\ \A i \in 1..N : dz[i] >= cfg.dz[i] /\ (dz[i] - cfg.dz[i]) % 10 = 0
WellFormedLayers == /\ layer[1] = 1
                    /\ \A i \in 1..(N - 1) : layer[i + 1] \in {layer[i], layer[i] + 1}     \* contiguous from the surface
                    /\ \A i \in 1..N : layer[i] \in 1..Len(cfg.layers)                      \* every compartment covered
AtDone == phase = "done" => WellFormedGeom /\ WellFormedLayers
\* deepening never changes which layer a compartment belongs to
LayerStable == [][phase = "deepen" => layer' = layer]_vars
OnlyGrows == [][\A i \in 1..N : dz'[i] >= dz[i]]_vars
Termination == <>(phase = "done")
Export == phase = "done" => PrintT(ToJson(<<"SOIL", cfg, dz, layer, steps>>))

=============================================================================
