CONSTANTS
 Methods = {0, 1, 2, 3, 4, 5}
 MaxIrrSet = {0, 4, 10}
 MaxSeasonSet = {9, 1000}
 IntervalSet = {2}
 EffSet = {100, 50}
 DepthSet = {3, 12}
 SchedSet = {0, 6, 14}
 DeplSet = {0, 2, 5}
 TawSet = {4}
 SeasonLen = 3
SPECIFICATION Spec
INVARIANT OffSeasonZero
INVARIANT RainfedZero
INVARIANT NetNoSurface
INVARIANT DailyMax
INVARIANT SeasonMax
INVARIANT IntervalDays
INVARIANT ScheduledOnly
INVARIANT ConstantDepth
INVARIANT NonNegative
CHECK_DEADLOCK FALSE
