------------------------------ MODULE Response ------------------------------
(***************************************************************************)
(* Contracts of the stress / growth response functions (property C17).        *)
(*                                                                          *)
(* The harness calls the REAL functions along one-dimensional sweeps of a     *)
(* lattice (argument ascending) and records (argument, value) events; TLC     *)
(* judges every sweep:                                                       *)
(*   range      lo <= value <= hi at every point                              *)
(*   monotone   an ACTION PROPERTY over consecutive call events:              *)
(*              arg' >= arg => value' <= value (or >=)                        *)
(*   boundary   fixed values at and beyond the thresholds                     *)
(*   exact      piecewise-linear functions are recomputed: growing degree     *)
(*              days (CropRel!GDD, methods 1-3) and the linear water-stress    *)
(*              coefficients 1 - Drel                                         *)
(*   inverse    growth(required_time(c)) = c                                  *)
(*   pure       a second evaluation in reverse order gives the same values     *)
(* TLC cannot recompute exp/log: for those kernels it is the evaluator of the  *)
(* recorded lattice against the contract, not a prover.                       *)
(***************************************************************************)
EXTENDS Num, CropRel, Json, IOUtils, TLC

Sweeps == JsonDeserialize(IOEnv.TRACE_FILE)
NS == Len(Sweeps)
VARIABLES sid, verdict
vars == <<sid, verdict>>

RTol == Tiny(1000)                 \* 1e-9
Pts(s) == s.pts
Arg(p) == p[1]
Val(p) == p[2]

AllFin(s) == \A i \in 1..Len(Pts(s)) : Finite(Val(Pts(s)[i]))
RangeBad(s) == {i \in 1..Len(Pts(s)) : ~(LeTol(s.lo, Val(Pts(s)[i]), RTol) /\ LeTol(Val(Pts(s)[i]), s.hi, RTol))}
\* consecutive call events of the sweep (argument ascending)
MonoBad(s) == IF s.dir = "none" THEN {}
              ELSE {i \in 1..(Len(Pts(s)) - 1) :
                      /\ Le(Arg(Pts(s)[i]), Arg(Pts(s)[i + 1]))
                      /\ IF s.dir = "noninc" THEN ~LeTol(Val(Pts(s)[i + 1]), Val(Pts(s)[i]), RTol)
                                             ELSE ~LeTol(Val(Pts(s)[i]), Val(Pts(s)[i + 1]), RTol)}
Ordered(s) == \A i \in 1..(Len(Pts(s)) - 1) : Le(Arg(Pts(s)[i]), Arg(Pts(s)[i + 1]))
\* boundary conditions: list of [below |-> a, value |-> v] (every point with arg <= a has value v) / [above |-> ...]
Has(r, f) == f \in DOMAIN r
BoundBad(s) == {i \in 1..Len(Pts(s)) :
                  \E b \in {s.bounds[j] : j \in 1..Len(s.bounds)} :
                     \/ (Has(b, "below") /\ Le(Arg(Pts(s)[i]), b.below) /\ ~Near(Val(Pts(s)[i]), b.value, RTol))
                     \/ (Has(b, "above") /\ Ge(Arg(Pts(s)[i]), b.above) /\ ~Near(Val(Pts(s)[i]), b.value, RTol))
                     \/ (Has(b, "at") /\ Eq(Arg(Pts(s)[i]), b.at) /\ ~Near(Val(Pts(s)[i]), b.value, RTol))}
\* exact recomputation
\*  kind "gdd": s.x = [method, tupp, tbase, fixed (the other temperature), vary ("tmax" | "tmin")]
GddAt(s, a) == IF s.x.vary = "tmax" THEN GDD(s.x.method, s.x.tupp, s.x.tbase, a, s.x.fixed)
               ELSE GDD(s.x.method, s.x.tupp, s.x.tbase, s.x.fixed, a)
\*  kind "linear": value = 1 - clamp((arg/taw - pup) / (plo - pup), 0, 1)  with arg = depletion:
\*      (1 - value) * (plo - pup) * taw = arg - pup * taw   strictly between the thresholds
LinearOk(s, p) == LET dr == Arg(p) v == Val(p) pupT == Mul(s.x.pup, s.x.taw) ploT == Mul(s.x.plo, s.x.taw) IN
                  IF Le(dr, pupT) THEN Near(v, Units(1), RTol)
                  ELSE IF Ge(dr, ploT) THEN Near(v, Z, RTol)
                  ELSE Near(Mul(Mul(Sub(Units(1), v), Sub(s.x.plo, s.x.pup)), s.x.taw), Sub(dr, pupT), Tiny(100000))
ExactBad(s) == CASE s.kind = "gdd" -> {i \in 1..Len(Pts(s)) : ~Near(Val(Pts(s)[i]), GddAt(s, Arg(Pts(s)[i])), RTol)}
                 [] s.kind = "linear" -> {i \in 1..Len(Pts(s)) : ~LinearOk(s, Pts(s)[i])}
                 [] s.kind = "inverse" -> {i \in 1..Len(Pts(s)) : ~Near(Val(Pts(s)[i]), Arg(Pts(s)[i]), Tiny(100000))}
                 [] OTHER -> {}

\* a response FUNCTION: the second evaluation of the sweep (arguments in reverse order) reproduces the first, point by point
PureBad(s) == IF Has(s, "again") THEN {i \in 1..Len(Pts(s)) : i > Len(s.again) \/ Val(Pts(s)[i]) # s.again[i]} ELSE {}

Judge(s) ==
  IF ~AllFin(s) THEN [ok |-> FALSE, finite |-> FALSE, range |-> {}, mono |-> {}, bound |-> {}, exact |-> {}, pure |-> {}, ordered |-> TRUE, n |-> Len(Pts(s))]
  ELSE LET r == RangeBad(s) m == MonoBad(s) b == BoundBad(s) x == ExactBad(s) u == PureBad(s) IN
       [ok |-> r = {} /\ m = {} /\ b = {} /\ x = {} /\ u = {} /\ Ordered(s), finite |-> TRUE, range |-> r, mono |-> m, bound |-> b, exact |-> x, pure |-> u,
        ordered |-> Ordered(s), n |-> Len(Pts(s))]

RInit == sid \in 1..NS /\ verdict = Judge(Sweeps[sid])
RNext == /\ verdict # <<>> /\ PrintT(ToJson(<<"VERDICT", sid, verdict>>)) /\ verdict' = <<>> /\ UNCHANGED sid
RSpec == RInit /\ [][RNext]_vars
=============================================================================
