------------------------------ MODULE CropRel ------------------------------
(***************************************************************************)
(* Contract relations for the crop part of a day (properties C05, C06, C17's *)
(* exact growing-degree-day formula).  Evaluated on the day's growth-table   *)
(* row g, the crop envelope cr of the season, and the values carried from    *)
(* the previous day p.                                                       *)
(*   g: [dap, gdd, gddCum, zroot, cc, ccns, b, bns, hi, hiadj, dry, fresh,   *)
(*       ypot]  (Num)                                                        *)
(*   cr: [CCx, Zmin, Zmax, HI0, dHI0, Tbase, Tupp, WP, WPy, YldWC, fCO2,     *)
(*        gddMethod]                                                         *)
(*   p: [gddCum, zroot, hi, hiadj, b, bns]  values at the end of yesterday   *)
(*   x: [gs, first (dap = 1), wt, hasZ, zgw, tmin, tmax, et0, tr]            *)
(***************************************************************************)
EXTENDS Num, FiniteSets

CTol == Tiny(1000)          \* 1e-9

\* growing degree days, methods 1-3 (min / max / halving only: exact up to the 1e-12 grid)
GDD(method, tupp, tbase, tmax, tmin) ==
  CASE method = 1 -> Sub(Clamp(Half(Add(tmax, tmin)), tbase, tupp), tbase)
    [] method = 2 -> Sub(Half(Add(Clamp(tmax, tbase, tupp), Clamp(tmin, tbase, tupp))), tbase)
    [] method = 3 -> Sub(Max(Half(Add(Clamp(tmax, tbase, tupp), Min(tmin, tupp))), tbase), tbase)
    [] OTHER -> Z
\* the clamps are applied in the implementation's order min-then-max; for tbase <= tupp both orders agree

FiniteRow(g) == \A k \in DOMAIN g : Finite(g[k])

EnvelopeC(g, cr, p, x) ==
  IF ~FiniteRow(g) THEN [ finite |-> FALSE ]
  ELSE IF ~x.gs THEN
  [ finite   |-> TRUE,
    offZero  |-> IsZero(g.cc) /\ IsZero(g.b) /\ IsZero(g.dry) /\ IsZero(g.fresh) /\ IsZero(g.dap) ]
  ELSE
  [ finite   |-> TRUE,
    ccRange  |-> Ge(g.cc, Z) /\ LeTol(g.cc, cr.CCx, CTol),
    ccnsRange|-> Ge(g.ccns, Z) /\ LeTol(g.ccns, cr.CCx, CTol),
    ccLeNs   |-> LeTol(g.cc, g.ccns, CTol),
    zrootMin |-> LeTol(cr.Zmin, g.zroot, CTol),
    zrootMax |-> LeTol(g.zroot, cr.Zmax, CTol),
    zrootGw  |-> (x.wt /\ x.hasZ /\ Ge(x.zgw, cr.Zmin)) => LeTol(g.zroot, x.zgw, CTol),
    zrootMono|-> (~x.first) => \/ LeTol(p.zroot, g.zroot, CTol)
                               \/ (x.wt /\ x.hasZ /\ Near(g.zroot, Max(x.zgw, cr.Zmin), CTol)),
    hiMono   |-> (~x.first) => LeTol(p.hi, g.hi, CTol),
    hiCap    |-> LeTol(g.hi, cr.HI0, CTol),
    hiAdjCap |-> MulLe(g.hiadj, Units(100), cr.HI0, Add(Units(100), cr.dHI0)),
    bMono    |-> (~x.first) => LeTol(p.b, g.b, CTol),
    bnsMono  |-> (~x.first) => LeTol(p.bns, g.bns, CTol),
    gddRange |-> Ge(g.gdd, Z) /\ LeTol(g.gdd, Sub(cr.Tupp, cr.Tbase), CTol),
    gddSum   |-> Near(g.gddCum, Add(IF x.first THEN Z ELSE p.gddCum, g.gdd), CTol),
    gddMono  |-> (~x.first) => LeTol(p.gddCum, g.gddCum, CTol),
    gddExact |-> Near(g.gdd, GDD(cr.gddMethod, cr.Tupp, cr.Tbase, x.tmax, x.tmin), CTol) ]

\* C06: products of the day
\*  min(1,WPy/100) * WP * fCO2 * Tr  <=  dB * ET0  <=  max(1,WPy/100) * WP * fCO2 * Tr
YieldC(g, cr, p, x) ==
  IF ~FiniteRow(g) \/ ~x.gs THEN [ none |-> TRUE ]
  ELSE LET dB  == Sub(g.b, IF x.first THEN Z ELSE p.b)
           wpf == Mul(cr.WP, cr.fCO2)
           lo  == Min(cr.WPy, Units(100))
           hi  == Max(cr.WPy, Units(100))
       IN
  [ gainUpper |-> IsNeg(dB) \/ Mul3Le(dB, x.et0, Units(100), wpf, x.tr, hi),
    gainLower |-> IsNeg(dB) \/ Mul3Le(wpf, x.tr, lo, dB, x.et0, Units(100)),
    dryYield  |-> MulNear(g.dry, Units(100), g.b, g.hiadj),
    freshYield|-> MulNear(g.fresh, cr.YldWC, Units(100), g.dry),
    potYield  |-> MulNear(g.ypot, Units(100), g.bns, g.hi) ]
=============================================================================
