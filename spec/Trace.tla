------------------------------- MODULE Trace -------------------------------
(***************************************************************************)
(* Trace validation of recorded AquaCrop-OSPy executions against the         *)
(* specification (monitor style, total verdicts).                            *)
(*                                                                          *)
(* Input: a JSON file (environment variable TRACE_FILE) holding a sequence   *)
(* of trace documents [cfg, events] written by harness/tracer.py: one event  *)
(* per pipeline stage of every simulated day, with its arguments and the     *)
(* projected state (numbers as Num pairs).                                   *)
(*                                                                          *)
(* For every event the relation of the corresponding specification action    *)
(* (WaterRel / IrrRel / CropRel / ClockRel, the same operators that the      *)
(* model-checking instances use) is evaluated between the specification      *)
(* state st and the logged state, clause by clause.  A failing clause never  *)
(* blocks: it is recorded in viol together with the ids of the properties it *)
(* serves (Props), the state is re-synchronised with the log, and the rest   *)
(* of the trace is still checked.  Clauses with Props = {} are fidelity      *)
(* clauses (what the code does beyond the listed properties): they are       *)
(* reported as spec/implementation mismatches, never as violations.          *)
(***************************************************************************)
EXTENDS WaterRel, IrrRel, CropRel, ClockRel, Json, IOUtils, TLC

Traces == JsonDeserialize(IOEnv.TRACE_FILE)
NT == Len(Traces)

VARIABLES tid, l, st, viol
vars == <<tid, l, st, viol>>

Has(e, f) == f \in DOMAIN e
Cfg(t) == Traces[t].cfg
Ev(t, i) == Traces[t].events[i]
NE(t) == Len(Traces[t].events)

(***************************************************************************)
(* Which properties a clause serves.                                         *)
(***************************************************************************)
Props(stage, clause) ==
  CASE stage = "DayEnd.closure"                      -> {"C01"}
    [] stage = "Carry"                               -> {"C01"}
    [] stage = "Reset" /\ clause \in {"water", "pond"} -> {"C01", "C08"}
    [] stage = "Reset.fields"                        -> {"C08"}
    [] stage = "DayEnd.partition"                    -> {"C02"}
    [] stage = "RainPartition" /\ clause \in {"roSign", "roLeP", "split", "blocked"} -> {"C02"}
    [] stage = "Infiltrate" /\ clause = "effOfConfig" -> {"C02", "C20"}
    [] stage = "DayEnd.bounds"                       -> {"C03"}
    [] stage = "Init.bounds" /\ clause = "pond"      -> {"C03"}
    [] stage = "Init.config" /\ clause = "irr"        -> {"C13"}
    [] stage = "Init.config"                         -> {"C02", "C03"}
    [] stage = "DayEnd.signs"                        -> {"C04"}
    [] stage = "Evaporate" /\ clause \in {"potSign", "sign", "lePot"} -> {"C04"}
    [] stage = "Transpire" /\ clause \in {"sign", "lePot", "offSeason"} -> {"C04"}
    [] stage = "Transpire" /\ clause \in {"netOnly", "methodOfConfig"} -> {"C13"}
    [] stage = "DayEnd.envelope" /\ clause = "gddExact" -> {"C05", "C17"}
    [] stage = "DayEnd.envelope" /\ clause = "finite"   -> {"C05", "C16"}
    [] stage = "DayEnd.envelope"                     -> {"C05"}
    [] stage = "DayEnd.yield"                        -> {"C06"}
    [] stage = "DayEnd.summary"                      -> {"C06"}
    [] stage = "Season.irrSum"                       -> {"C06"}
    [] stage = "Season.fco2"                         -> {"C06", "C08"}
    [] stage = "Season.cropConst"                    -> {"C05", "C12"}
    [] stage = "Init.config" /\ clause = "crop"       -> {"C05"}
    [] stage = "DayEnd.finite"                       -> {"C16"}
    [] stage = "DayBegin.clock"                      -> {"C07"}
    [] stage = "DayBegin.weather"                    -> {"C15"}
    [] stage = "DayEnd.clock"                        -> {"C07"}
    [] stage = "DayEnd.rows"                         -> {"C07"}
    [] stage = "Advance.clock"                       -> {"C07"}
    [] stage = "Advance.visible"                     -> {"C09"}
    [] stage = "Init.dates"                          -> {"C07"}
    [] stage = "Params"                              -> {"C12"}
    [] stage = "Irrigate"                            -> {"C13"}
    [] stage = "GrowthStage" /\ clause = "stage"     -> {"C13"}
    [] stage = "DayEnd.irr"                          -> {"C13"}
    [] stage = "PreIrr" /\ clause = "disabled"       -> {"C13"}
    [] stage = "CheckGW" /\ clause \in {"range", "far", "series"} -> {"C19"}
    [] stage = "CapRise" /\ clause \in {"noTable", "fcCap"} -> {"C19"}
    [] stage = "DayEnd.gw"                           -> {"C19"}
    [] stage = "Crash"                               -> {"C16"}
    [] OTHER                                         -> {}

Tag(stage, c) == {<<stage, k, Props(stage, k)>> : k \in Failing(c)}

(***************************************************************************)
(* Specification state carried along a trace.                                *)
(***************************************************************************)
ZeroLedger == [P |-> Z, ET0 |-> Z, Tmin |-> Z, Tmax |-> Z,
               preIrr |-> Z, irr |-> Z, irrEff |-> Z, crThick |-> Z, zgw |-> Z, hasZ |-> FALSE,
               gs |-> FALSE, gsKnown |-> FALSE, dead |-> FALSE, bundsToday |-> FALSE, zBund |-> Z, nRoot |-> 1,
               tr |-> Z, stageNow |-> 0]

K(t) == LET c == Cfg(t) IN
  [N |-> c.N, Wdry |-> c.Wdry, Wwp |-> c.Wwp, Wfc |-> c.Wfc, Wsat |-> c.Wsat, ksat |-> c.ksat, zmid |-> c.zmid]

ClockCfg(t) == LET c == Cfg(t) IN
  [startDay |-> c.startDay, endDay |-> c.endDay, plant |-> c.plant, harv |-> c.harv,
   nSeasons |-> c.nSeasons, offSeason |-> c.offSeason]

St0 == [ws |-> [W |-> <<>>, pond |-> Z], fcAdj |-> <<>>, begin |-> [W |-> <<>>, pond |-> Z],
        clk |-> [tsc |-> 0, season |-> -1, dap |-> 0, mature |-> FALSE, dead |-> FALSE, harvested |-> FALSE,
                 finished |-> FALSE, nStats |-> 0],
        d |-> ZeroLedger, prev |-> [gddCum |-> Z, zroot |-> Z, hi |-> Z, hiadj |-> Z, b |-> Z, bns |-> Z],
        crop |-> [calendarType |-> 1], phash |-> [none |-> 0], seasonIrr |-> Z, irrSeason |-> -1,
        stage |-> 0, ccadj |-> Z, ic0 |-> [none |-> 0], germ |-> FALSE, delayedCds |-> Z, delayedGdds |-> Z, irrCum |-> Z, exp |-> [none |-> 0], alive |-> TRUE, statIrr |-> Z, hasStat |-> FALSE, statKeys |-> <<>>, bprev |-> [known |-> FALSE, eff |-> FALSE, z |-> Z]]

WsOf(s, e) == [W |-> IF Has(e, "W") THEN e.W ELSE s.ws.W, pond |-> IF Has(e, "pond") THEN e.pond ELSE s.ws.pond]

Field(t, gs) == IF gs THEN Cfg(t).field ELSE Cfg(t).fallow

(***************************************************************************)
(* Water-table series from the observations (C19): value expected on day n.  *)
(* Constant: the latest observation at or before n (the first one before     *)
(* it); Variable: linear interpolation between the neighbouring             *)
(* observations (held constant outside them).                               *)
(***************************************************************************)
ObsBefore(obs, n) == {i \in 1..Len(obs) : obs[i].day <= n}
ObsAfter(obs, n) == {i \in 1..Len(obs) : obs[i].day >= n}
MaxOf(S) == CHOOSE x \in S : \A y \in S : y <= x
MinOf(S) == CHOOSE x \in S : \A y \in S : x <= y
GwSeriesOk(t, n, z) ==
  LET obs == Cfg(t).gwObs IN
  IF Len(obs) = 0 THEN TRUE
  ELSE IF Len(obs) = 1 THEN Near(z, obs[1].depth, Tol9)
  ELSE IF Cfg(t).wtMethod = "Constant"
       THEN Near(z, IF ObsBefore(obs, n) = {} THEN obs[1].depth ELSE obs[MaxOf(ObsBefore(obs, n))].depth, Tol9)
  ELSE \* Variable
       IF ObsBefore(obs, n) = {} THEN Near(z, obs[MinOf(ObsAfter(obs, n))].depth, Tol9)   \* first observation held before the observed period
       ELSE IF ObsAfter(obs, n) = {} THEN Near(z, obs[MaxOf(ObsBefore(obs, n))].depth, Tol9)
       ELSE LET i == MaxOf(ObsBefore(obs, n))  j == MinOf(ObsAfter(obs, n))
            IN IF i = j THEN Near(z, obs[i].depth, Tol9)
               ELSE \* z * (dj - di) = vi * (dj - n) + vj * (n - di)
                    LET span == Units(obs[j].day - obs[i].day)
                        lhs == Mul(z, span)
                        rhs == Add(Mul(obs[i].depth, Units(obs[j].day - n)), Mul(obs[j].depth, Units(n - obs[i].day)))
                    IN Near(lhs, rhs, Tiny(100000))      \* 1e-7 after scaling by the span

(***************************************************************************)
(* Event handlers: Chk_X(t, s, e) = set of tagged failing clauses;           *)
(*                 Upd_X(t, s, e) = specification state after the event.     *)
(***************************************************************************)
\* ---- Initialize
InitDatesC(t, e) ==
  LET c == Cfg(t) IN
  [ startBeforeEnd |-> c.startDay < c.endDay,
    counts   |-> Len(c.plant) = c.nSeasons /\ Len(c.harv) = c.nSeasons,
    order    |-> \A k \in 1..c.nSeasons : c.plant[k] < c.harv[k] /\ (k > 1 => c.plant[k] > c.harv[k - 1] \/ c.plant[k] > c.plant[k - 1]),
    firstOnOrAfterStart |-> c.nSeasons >= 1 => c.plant[1] >= c.startDay,
    initClock |-> e.clock = [ClockInit(ClockCfg(t)) EXCEPT !.dap = e.clock.dap] /\ e.clock.dap = 0 ]
   @@ (IF Has(c, "ymd")
       THEN LET sd == SeasonDates(c.ymd.start, c.ymd.end, c.ymd.plant, c.ymd.harv)
            IN [ derivedN |-> sd.n = c.nSeasons, derivedPlant |-> sd.plant = c.plant, derivedHarv |-> sd.harv = c.harv,
                 defaultHarv |-> (c.ymd.harvGiven = <<>>) => (c.ymd.harv = DefaultHarvMD(c.ymd.plant, c.ymd.maturityCD)),
                 givenHarv |-> (c.ymd.harvGiven # <<>>) => (c.ymd.harv = c.ymd.harvGiven) ]
       ELSE [ noYmd |-> TRUE ])

InitBoundsC(t, e) ==
  LET c == Cfg(t)  k == K(t)  ws == [W |-> e.W, pond |-> IF Has(e, "pond") THEN e.pond ELSE Z]
      fm == IF e.clock.season = 0 THEN c.field ELSE c.fallow
  IN [ thRange |-> InBounds(k, ws),
       pond    |-> IF fm.effBunds THEN Eq(ws.pond, Min(fm.bundWater, fm.zBund)) ELSE IsZero(ws.pond) ]

\* the management settings the time stepping works with are the ones the user specified (bund height in mm)
InitConfigC(t) ==
  LET c == Cfg(t) IN
  IF Has(c, "user")
  THEN [ irr    |-> \A k \in DOMAIN c.user.irr : c.built.irr[k] = c.user.irr[k],
         field  |-> \A k \in DOMAIN c.user.field : c.built.field[k] = c.user.field[k],
         fallow |-> \A k \in DOMAIN c.user.fallow : c.built.fallow[k] = c.user.fallow[k],
         crop   |-> Has(c.user, "crop") => \A k \in DOMAIN c.user.crop : c.built.crop[k] = c.user.crop[k] ]
  ELSE [ none |-> TRUE ]
Chk_Initialize(t, s, e) == Tag("Init.dates", InitDatesC(t, e)) \cup Tag("Init.bounds", InitBoundsC(t, e)) \cup Tag("Init.config", InitConfigC(t))
Upd_Initialize(t, s, e) ==
  [s EXCEPT !.ws = [W |-> e.W, pond |-> IF Has(e, "pond") THEN e.pond ELSE Z],
            !.fcAdj = Cfg(t).Wfc, !.clk = e.clock, !.phash = e.phash, !.crop = Cfg(t).crop0,
            !.ic0 = IF Has(e, "ic") THEN e.ic ELSE s.ic0,
            \* water standing at the start can only be the initial bund water of the management in force on the first day
            !.bprev = LET fm == IF e.clock.season = 0 THEN Cfg(t).field ELSE Cfg(t).fallow IN [known |-> TRUE, eff |-> fm.effBunds, z |-> fm.zBund]]

\* ---- DayBegin
DayBeginClockC(t, s, e) ==
  [ tsc    |-> e.tsc = s.clk.tsc,
    date   |-> e.date = Cfg(t).startDay + e.tsc,
    season |-> e.season = s.clk.season,
    dap    |-> e.dapPrev = s.clk.dap,
    flags  |-> e.mature = s.clk.mature /\ e.dead = s.clk.dead /\ e.harvested = s.clk.harvested,
    notFinished |-> ~s.clk.finished,
    nStats |-> e.nStats = s.clk.nStats ]
\* the weather used on a day is the user's record of that date - its date AND its four values (wxRef: the harness's own copy of the table,
\* taken before the model was initialised)
DayBeginWeatherC(t, s, e) == [ byDate |-> e.wxDate = e.date,
                               byValue |-> Has(e, "wxRef") => (Eq(e.Tmin, e.wxRef[1]) /\ Eq(e.Tmax, e.wxRef[2]) /\ Eq(e.P, e.wxRef[3]) /\ Eq(e.ET0, e.wxRef[4])) ]
CarryC(t, s, e) == [ water |-> ~Has(e, "W"), pond |-> ~Has(e, "pond") ]
Chk_DayBegin(t, s, e) == Tag("DayBegin.clock", DayBeginClockC(t, s, e)) \cup Tag("DayBegin.weather", DayBeginWeatherC(t, s, e))
                         \cup Tag("Carry", CarryC(t, s, e))
Upd_DayBegin(t, s, e) ==
  LET ws == WsOf(s, e) IN
  [s EXCEPT !.ws = ws, !.begin = ws,
            !.d = [ZeroLedger EXCEPT !.P = e.P, !.ET0 = e.ET0, !.Tmin = e.Tmin, !.Tmax = e.Tmax],
            !.prev = [gddCum |-> e.gddCumPrev, zroot |-> e.zrootPrev, hi |-> e.hiPrev, hiadj |-> e.hiAdjPrev,
                      b |-> e.bPrev, bns |-> e.bnsPrev],
            !.clk = [s.clk EXCEPT !.tsc = e.tsc, !.season = e.season, !.dap = e.dapPrev, !.mature = e.mature,
                                  !.dead = e.dead, !.harvested = e.harvested, !.nStats = e.nStats]]

\* ---- CheckGW
\* a compartment centre within 1e-9 m of the table: exact and floating-point comparison may disagree
TieAt(t, z) == \E i \in 1..Cfg(t).N : Near(Cfg(t).zmidProf[i], z, Tol9)
CheckGWC(t, s, e) ==
  LET c == Cfg(t) k == K(t) wt == (c.wt = 1) IN
  [ same   |-> Same(s.ws, WsOf(s, e)),
    noTable|-> (~wt) => (~e.hasZ /\ (Has(e, "fcAdj") => e.fcAdj = s.fcAdj)),
    hasZ   |-> wt => e.hasZ,
    range  |-> (wt /\ Has(e, "fcAdj")) => \A i \in 1..k.N : LeTol(k.Wfc[i], e.fcAdj[i], Tol9) /\ LeTol(e.fcAdj[i], Max(k.Wsat[i], k.Wfc[i]), Tol9),
    far    |-> (wt /\ e.hasZ /\ Has(e, "fcAdj")) => \A i \in 1..k.N : Ge(Sub(e.zgw, k.zmid[i]), Units(2)) => Near(e.fcAdj[i], k.Wfc[i], Tol9),
    series |-> (wt /\ e.hasZ) => GwSeriesOk(t, c.startDay + s.clk.tsc, e.zgw),
    inSoil |-> (wt /\ e.hasZ /\ ~TieAt(t, e.zgw)) => (e.wtInSoil <=> \E i \in 1..k.N : Ge(c.zmidProf[i], e.zgw)) ]
Chk_CheckGW(t, s, e) == Tag("CheckGW", CheckGWC(t, s, e))
Upd_CheckGW(t, s, e) == [s EXCEPT !.ws = WsOf(s, e), !.fcAdj = IF Has(e, "fcAdj") THEN e.fcAdj ELSE s.fcAdj,
                                  !.d = [s.d EXCEPT !.hasZ = e.hasZ, !.zgw = IF e.hasZ THEN e.zgw ELSE Z]]

\* ---- RootDev (judged at DayEnd through the growth row); frame only
Chk_Frame(t, s, e, nm) == Tag(nm, FrameC(K(t), s.ws, WsOf(s, e)))
Upd_Frame(t, s, e) == [s EXCEPT !.ws = WsOf(s, e)]

\* ---- PreIrr: first event of the day that tells whether a growing season is active
PreIrrArgs(t, s, e) == [preIrr |-> e.preIrr, enabled |-> e.gs /\ Cfg(t).method = 4 /\ s.clk.dap + 1 = 1]
Chk_PreIrr(t, s, e) == Tag("PreIrr", PreIrrC(K(t), s.ws, WsOf(s, e), PreIrrArgs(t, s, e)))
Upd_PreIrr(t, s, e) ==
  LET fm == Field(t, e.gs /\ s.clk.season >= 0) IN
  [s EXCEPT !.ws = WsOf(s, e),
            !.d = [s.d EXCEPT !.gs = e.gs, !.gsKnown = TRUE, !.preIrr = e.preIrr,
                              !.bundsToday = fm.effBunds, !.zBund = fm.zBund]]

\* ---- Drain
Chk_Drain(t, s, e) == Tag("Drain", DrainC(K(t), s.ws, WsOf(s, e), [dp |-> e.dp, fcAdj |-> s.fcAdj]))

\* ---- RainPartition
RainArgs(t, s, e) == [P |-> e.P, runoff |-> e.runoff, infl |-> e.infl,
                      blocked |-> e.srInhb \/ (e.bunds /\ Ge(e.zBund, Milli(1)))]
Chk_Rain(t, s, e) == Tag("RainPartition", RainC(K(t), s.ws, WsOf(s, e), RainArgs(t, s, e))
                         @@ [ rainIsToday |-> Eq(e.P, s.d.P),
                              mgmtOfToday |-> LET fm == Field(t, s.d.gs /\ s.clk.season >= 0)
                                              IN e.bunds = fm.bunds /\ Eq(e.zBund, fm.zBund) /\ e.srInhb = fm.srInhb ])

\* the depth of the constant-depth strategy configured for step n: the caller may set it before every call (depth plan of the scenario)
DepthOn(t, n) == LET c == Cfg(t)
                     P == IF Has(c, "depthPlan") THEN {i \in 1..Len(c.depthPlan) : c.depthPlan[i]["from"] <= n} ELSE {}
                 IN IF P = {} THEN c.depth ELSE c.depthPlan[MaxOf(P)].depth
\* ---- Irrigate
IrrArgs(t, s, e) ==
  [method |-> e.method, gs |-> e.gs, dap |-> e.dap, stage |-> IF e.stage \in 1..4 THEN e.stage ELSE 1, smt |-> e.smt,
   appEff |-> e.appEff, maxIrr |-> e.maxIrr, interval |-> e.interval, sched |-> e.sched, depth |-> e.depth,
   maxSeason |-> e.maxSeason, irrCumPrev |-> e.irrCumPrev, depl |-> e.depl, taw |-> e.taw, irr |-> e.irr, irrCum |-> e.irrCum]
\* the depth scheduled by the user for a calendar date (the schedule is bound BY DATE)
SchedOn(t, n) == LET S == {i \in 1..Len(Cfg(t).schedule) : Cfg(t).schedule[i].day = n}
                 IN IF S = {} THEN Z ELSE Cfg(t).schedule[CHOOSE i \in S : TRUE].depth
IrrigateAll(t, s, e) ==
  LET c == Cfg(t) inSeasonMgmt == s.clk.season >= 0 IN
  IrrigateC(IrrArgs(t, s, e)) @@
  [ \* the decision reads the configured strategy and parameters (fallow management before the first season)
    cfgMethod |-> inSeasonMgmt => (e.method = c.method /\ Eq(e.appEff, c.appEff) /\ Eq(e.maxIrr, c.maxIrr)
                                   /\ Eq(e.maxSeason, c.maxSeason) /\ e.interval = c.interval /\ Eq(e.depth, DepthOn(t, s.clk.tsc))
                                   /\ Len(e.smt) = Len(c.smt) /\ \A i \in 1..Len(c.smt) : Eq(e.smt[i], c.smt[i])),
    cfgFallow |-> (~inSeasonMgmt) => e.method = 0,
    \* the depletion estimate the decision is based on: root-zone depletion + yesterday's evaporative demand - today's rain + runoff - the water
    \* held above field capacity in the root zone (re-derived by the harness from the state handed to the stage)
    estimate  |-> (e.gs /\ Has(e, "deplExp") /\ Finite(e.depl) /\ Finite(e.deplExp)) => (Near(e.depl, e.deplExp, Tol6) /\ Near(e.taw, e.tawExp, Tol6)),
    gsAgrees  |-> e.gs = s.d.gs,
    dapAgrees |-> e.gs => e.dap = s.clk.dap + 1,
    stageOfYesterday |-> (e.gs /\ e.dap > 1) => e.stage = s.stage,
    cumPrev   |-> e.gs => Eq(e.irrCumPrev, IF e.dap = 1 THEN Z ELSE s.irrCum),
    schedByDate |-> (e.gs /\ e.method = 3 /\ inSeasonMgmt) => Near(e.sched, SchedOn(t, c.startDay + s.clk.tsc), Tol9) ]
Chk_Irrigate(t, s, e) == Tag("Irrigate", IrrigateAll(t, s, e)) \cup Tag("Irrigate.frame", FrameC(K(t), s.ws, WsOf(s, e)))
Upd_Irrigate(t, s, e) == [s EXCEPT !.ws = WsOf(s, e), !.irrCum = e.irrCum, !.d = [s.d EXCEPT !.irr = e.irr]]

\* ---- Infiltrate
InfArgs(t, s, e) ==
  [inflCn |-> e.inflIn, irrEff |-> Div100(Mul(Max(e.irr, Z), e.appEff)), gs |-> e.gs,
   bunds |-> e.bunds /\ Gt(e.zBund, Milli(1)), zBund |-> e.zBund, ksat1 |-> e.ksat1,
   dp0 |-> e.dp0, runoff0 |-> e.runoff0, dp |-> e.dp, runoff |-> e.runoff, infl |-> e.infl]
Chk_Infiltrate(t, s, e) == Tag("Infiltrate", InfiltrateC(K(t), s.ws, WsOf(s, e), InfArgs(t, s, e))
                                @@ [ irrIsTodays |-> Eq(e.irr, s.d.irr),
                                     \* the efficiency applied to an irrigation is the CONFIGURED application efficiency
                                     effOfConfig |-> (Gt(e.irr, Z) /\ s.clk.season >= 0) => Eq(e.appEff, Cfg(t).appEff),
                                     mgmtOfToday |-> LET fm == Field(t, s.d.gs /\ s.clk.season >= 0)
                                                     IN e.bunds = fm.bunds /\ Eq(e.zBund, fm.zBund) ])
Upd_Infiltrate(t, s, e) == [s EXCEPT !.ws = WsOf(s, e), !.d = [s.d EXCEPT !.irrEff = InfArgs(t, s, e).irrEff]]

\* ---- CapRise
CapArgs(t, s, e) == [cr |-> e.cr, wt |-> Cfg(t).wt = 1, fcAdj |-> s.fcAdj, thick |-> Cfg(t).thick, slack |-> Cfg(t).crSlack]
Chk_CapRise(t, s, e) == Tag("CapRise", CapRiseC(K(t), s.ws, WsOf(s, e), CapArgs(t, s, e)))
Upd_CapRise(t, s, e) == [s EXCEPT !.ws = WsOf(s, e),
                                  !.d = [s.d EXCEPT !.crThick = RisenThick(K(t), s.ws, WsOf(s, e), CapArgs(t, s, e))]]

\* ---- Germinate: once germinated a crop stays germinated for the season; while it has not, the delay counters advance
GerminateC(t, s, e) ==
  [ offSeason |-> (~e.gs) => (~e.germ /\ IsZero(e.delayedCds) /\ IsZero(e.delayedGdds)),
    stays     |-> (e.gs /\ s.germ /\ s.clk.dap + 1 > 1) => e.germ,
    delayCd   |-> (e.gs /\ ~e.germ) => Eq(e.delayedCds, Add(IF s.clk.dap + 1 = 1 THEN Z ELSE s.delayedCds, Units(1))),
    delayGdd  |-> (e.gs /\ ~e.germ) => Near(e.delayedGdds, Add(IF s.clk.dap + 1 = 1 THEN Z ELSE s.delayedGdds, e.gdd), Tol9),
    frozen    |-> (e.gs /\ e.germ /\ s.germ /\ s.clk.dap + 1 > 1) => (Eq(e.delayedCds, s.delayedCds) /\ Eq(e.delayedGdds, s.delayedGdds)) ]
Chk_Germinate(t, s, e) == Tag("Germinate", GerminateC(t, s, e)) \cup Chk_Frame(t, s, e, "Germinate")
Upd_Germinate(t, s, e) == [s EXCEPT !.ws = WsOf(s, e), !.germ = e.germ, !.delayedCds = e.delayedCds, !.delayedGdds = e.delayedGdds]

\* ---- GrowthStage: exact - the stage follows the (delay-adjusted) time since planting against the crop's phenology
\* (a time within 1e-9 of a phenological threshold is a tie between exact and floating-point comparison: both stages accepted)
StageAt(t, e) == IF Le(t, e.c10) THEN 1 ELSE IF Le(t, e.maxc) THEN 2 ELSE IF Le(t, e.sen) THEN 3 ELSE 4
StagesOk(e) == {StageAt(Sub(e.tadj, Tol9), e), StageAt(e.tadj, e), StageAt(Add(e.tadj, Tol9), e)}
\* with the comparisons of the doubles logged (cmp[k] = "time <= k-th threshold"), the stage is decided exactly - an equality is stage "before" -
\* and the logged comparisons must agree with the fixed-point values outside the 1e-9 band
StageExact(e) == IF e.cmp[1] THEN 1 ELSE IF e.cmp[2] THEN 2 ELSE IF e.cmp[3] THEN 3 ELSE 4
CmpOk(e) == LET thr == <<e.c10, e.maxc, e.sen>> IN
            \A k \in 1..3 : (e.cmp[k] => Le(e.tadj, Add(thr[k], Tol9))) /\ (~e.cmp[k] => Gt(e.tadj, Sub(thr[k], Tol9)))
GrowthStageC(t, s, e) ==
  [ offSeason |-> (~e.gs) => e.stage = 0,
    stage     |-> e.gs => (IF Has(e, "cmp") THEN e.stage = StageExact(e) /\ CmpOk(e) ELSE e.stage \in StagesOk(e)),
    monotone  |-> (e.gs /\ s.clk.dap + 1 > 1 /\ s.stage > 0) => e.stage >= s.stage \/ ~Eq(s.delayedCds, s.delayedCds) ]
Chk_GrowthStage(t, s, e) == Tag("GrowthStage", GrowthStageC(t, s, e)) \cup Chk_Frame(t, s, e, "GrowthStage")
\* ---- GrowthStage / Canopy (values carried to the day-end clauses)
Upd_GrowthStage(t, s, e) == [s EXCEPT !.ws = WsOf(s, e), !.d = [s.d EXCEPT !.stageNow = e.stage]]
Upd_Canopy(t, s, e) == [s EXCEPT !.ws = WsOf(s, e), !.ccadj = e.ccadj, !.d = [s.d EXCEPT !.dead = e.dead]]

\* ---- Evaporate / Transpire / GwInflow
\* evaporation layer: potential rate bounded by the maximum evaporation coefficient, layer depth within its configured limits,
\* only compartments that reach into the deepest possible evaporation layer lose water, ponded water evaporates first
EvapLayerC(t, s, e) ==
  LET c == Cfg(t) post == WsOf(s, e) IN
  [ potCap   |-> LeTol(e.espot, Mul(e.kex, e.et0), Tol9),
    todaysET |-> Eq(e.et0, s.d.ET0),
    depth    |-> LeTol(e.zmin, e.evapZ, Tol9) /\ LeTol(e.evapZ, Add(e.zmax, Milli(2)), Tol9),
    topOnly  |-> \A i \in 1..c.N : Ge(Sub(c.zbot[i], c.thick[i]), Add(e.zmax, Milli(2))) => post.W[i] = s.ws.W[i],
    pondAll  |-> Ge(s.ws.pond, e.espot) /\ IsPos(e.espot) => (Near(e.es, e.espot, Tol9) /\ post.W = s.ws.W),
    needsPot |-> IsPos(e.es) => IsPos(e.espot) ]
Chk_Evaporate(t, s, e) == Tag("Evaporate", EvapC(K(t), s.ws, WsOf(s, e), [es |-> e.es, espot |-> e.espot]))
                          \cup Tag("Evaporate.layer", EvapLayerC(t, s, e))
TrArgs(t, s, e) == [tr |-> e.tr, trpot |-> e.trpot, irrnet |-> e.irrnet, gs |-> e.gs, net |-> e.method = 4]
\* potential transpiration never exceeds basal crop coefficient x adjusted canopy cover x reference ET (ageing, CO2, senescence and cold
\* stress only reduce it)
TrPotCapC(t, s, e) == IF Has(s.crop, "Kcb") /\ Finite(e.trpot) /\ Finite(s.ccadj) /\ ~IsNeg(s.ccadj)
                      THEN [ potCap |-> LeTol(e.trpot, Mul(Mul(s.crop.Kcb, s.ccadj), s.d.ET0), Tol9) ]
                      ELSE [ none |-> TRUE ]
Chk_Transpire(t, s, e) == Tag("Transpire", TranspC(K(t), s.ws, WsOf(s, e), TrArgs(t, s, e))
                                            @@ [ methodOfConfig |-> (e.gs /\ s.clk.season >= 0) => e.method = Cfg(t).method ])
                          \cup Tag("Transpire.pot", TrPotCapC(t, s, e))
Upd_Transpire(t, s, e) == [s EXCEPT !.ws = WsOf(s, e), !.d = [s.d EXCEPT !.tr = e.tr]]
FirstBelow(t, z) == LET S == {i \in 1..Cfg(t).N : Ge(Cfg(t).zmidProf[i], z)} IN IF S = {} THEN 0 ELSE MinOf(S)
GwArgs(t, s, e) == [gwin |-> e.gwin, wtInSoil |-> e.wtInSoil, first |-> IF s.d.hasZ /\ ~TieAt(t, s.d.zgw) THEN FirstBelow(t, s.d.zgw) ELSE 0]
Chk_GwInflow(t, s, e) == Tag("GwInflow", GwInC(K(t), s.ws, WsOf(s, e), GwArgs(t, s, e)))

\* ---- RootZone: the reported root-zone storage lies between the water of the compartments wholly inside the root zone and of
\* all compartments it reaches into (each term is rounded to 0.01 mm by the implementation)
RootZoneC(t, s, e) ==
  LET n == e.nRoot slack == Milli(10 * e.nRoot) IN
  [ upper |-> LeTol(e.wr, Add(SumRange(s.ws.W, 1, n), slack), Tol9),
    lower |-> LeTol(SumRange(s.ws.W, 1, n - 1), Add(e.wr, slack), Tol9),
    sign  |-> Ge(e.wr, Z) ]
Chk_RootZone(t, s, e) == IF AllFinite(s.ws.W) /\ Finite(e.wr) THEN Tag("RootZone", RootZoneC(t, s, e)) ELSE {}
Upd_RootZone(t, s, e) == [s EXCEPT !.d = [s.d EXCEPT !.nRoot = e.nRoot]]
\* ---- Canopy: cover adjusted for micro-advection is the cubic 1.72 CC - CC^2 + 0.3 CC^3 of the canopy cover
CanopyC(t, s, e) ==
  IF ~(Finite(e.cc) /\ Finite(e.ccadj)) \/ IsNeg(e.cc) THEN [ finite |-> Finite(e.cc) /\ Finite(e.ccadj) ]
  ELSE LET c2 == Mul(e.cc, e.cc) c3 == Mul(c2, e.cc)
           poly == Sub(Add(Div100(Mul(e.cc, Units(172))), Div100(Mul(c3, Units(30)))), c2)
       IN [ adjusted |-> Near(e.ccadj, poly, Tiny(100000)),
            deadStays |-> s.clk.dead => e.dead ]
Chk_Canopy(t, s, e) == Tag("Canopy", CanopyC(t, s, e)) \cup Chk_Frame(t, s, e, "Canopy")

(***************************************************************************)
(* DayEnd: the day's table rows as written, judged against the state the     *)
(* specification has followed through the stages.                            *)
(***************************************************************************)
Growth(e) == [dap |-> e.growth.dap, gdd |-> e.growth.gdd, gddCum |-> e.growth.gdd_cum, zroot |-> e.growth.z_root,
              cc |-> e.growth.canopy_cover, ccns |-> e.growth.canopy_cover_ns, b |-> e.growth.biomass,
              bns |-> e.growth.biomass_ns, hi |-> e.growth.harvest_index, hiadj |-> e.growth.harvest_index_adj,
              dry |-> e.growth.DryYield, fresh |-> e.growth.FreshYield, ypot |-> e.growth.YieldPot]
Ledger(t, s, e) ==
  LET f == e.flux IN
  [P |-> s.d.P, irrEff |-> s.d.irrEff, infl |-> f.Infl, runoff |-> f.Runoff, dp |-> f.DeepPerc, cr |-> f.CR,
   gwin |-> f.GwIn, es |-> f.Es, espot |-> f.EsPot, tr |-> f.Tr, trpot |-> f.TrPot, irrDay |-> f.IrrDay,
   netAdd |-> IF Cfg(t).method = 4 /\ s.clk.season >= 0 THEN f.IrrDay ELSE Z,
   crAllowThick |-> s.d.crThick, gs |-> e.gs, bundsToday |-> s.d.bundsToday, zBund |-> s.d.zBund,
   method |-> IF s.clk.season >= 0 THEN Cfg(t).method ELSE 0, nRoot |-> s.d.nRoot, wr |-> f.Wr,
   wt |-> Cfg(t).wt = 1, hasZ |-> s.d.hasZ, zgw |-> s.d.zgw]
FluxFinite(t, e) == \A k \in DOMAIN e.flux : (k = "z_gw" /\ Cfg(t).wt = 0) \/ Finite(e.flux[k])
Thermal(s) == s.crop.calendarType = 2
\* environment of the clock step, as observed
MaturesNow(s, e) == IF ~Finite(e.growth.gdd_cum) THEN FALSE
                    ELSE IF Thermal(s) THEN e.gs /\ Ge(e.growth.gdd_cum, s.crop.Maturity)
                    ELSE e.gs /\ Ge(Units(s.clk.dap + 1), s.crop.Maturity)
ExpStep(t, s, e) == ClockStep(ClockCfg(t), s.clk, MaturesNow(s, e), s.d.dead /\ ~s.clk.dead)

DayEndClockC(t, s, e) ==
  LET r == ExpStep(t, s, e) IN
  [ gs        |-> e.gs = r.gs,
    gsSeen    |-> s.d.gsKnown => e.gs = s.d.gs,
    harvest   |-> (e.nStats = s.clk.nStats + 1) <=> r.harvestNow,
    oneRow    |-> e.nStats \in {s.clk.nStats, s.clk.nStats + 1} ]
DayEndRowsC(t, s, e) ==
  LET r == ExpStep(t, s, e) IN
  [ tscFlux   |-> Eq(e.flux.time_step_counter, Units(s.clk.tsc)),
    tscGrowth |-> Eq(e.growth.time_step_counter, Units(s.clk.tsc)),
    tscStor   |-> Eq(e.storRow.tsc, Units(s.clk.tsc)),
    seasonFlux|-> Eq(e.flux.season_counter, Units(s.clk.season)) /\ Eq(e.growth.season_counter, Units(s.clk.season)),
    dapRows   |-> Eq(e.flux.dap, Units(r.dap)) /\ Eq(e.growth.dap, Units(r.dap)) /\ Eq(e.storRow.dap, Units(r.dap)),
    dapFromPlanting |-> r.gs => r.dap = (Cfg(t).startDay + s.clk.tsc) - Plant(ClockCfg(t), s.clk.season) + 1,
    storIsState |-> e.storW = s.ws.W,
    pondIsState |-> Eq(e.flux.surface_storage, s.ws.pond) ]
\* a summary row, once written, is never rewritten: one row per season, written on its harvest day only
StatsFrozenC(s, e) ==
  IF Has(e, "statKeys")
  THEN [ frozen |-> Len(e.statKeys) >= Len(s.statKeys) /\ \A i \in 1..Len(s.statKeys) : e.statKeys[i] = s.statKeys[i] ]
  ELSE [ noKeys |-> TRUE ]
DayEndSummaryC(t, s, e) ==
  IF e.nStats = s.clk.nStats + 1 /\ Has(e, "lastStat")
  THEN LET x == e.lastStat IN
       [ season  |-> x.season = s.clk.season,
         step    |-> x.step = s.clk.tsc,
         date    |-> x.harvDate = Cfg(t).startDay + s.clk.tsc + 1,
         yields  |-> x.hex[1] = e.yhex[1] /\ x.hex[2] = e.yhex[2] /\ x.hex[3] = e.yhex[3],
         inOrder |-> x.season >= s.clk.nStats ] @@ StatsFrozenC(s, e)
  ELSE [ none |-> e.nStats = s.clk.nStats \/ Has(e, "lastStat") ] @@ StatsFrozenC(s, e)
DayEndIrrC(t, s, e) ==
  LET c == Cfg(t) f == e.flux m == IF s.clk.season >= 0 THEN c.method ELSE 0 IN
  [ offSeason |-> (~e.gs) => IsZero(f.IrrDay),
    rainfed   |-> m = 0 => IsZero(f.IrrDay),
    dailyMax  |-> m \in {1, 2, 3, 5} => LeTol(f.IrrDay, c.maxIrr, Tol9),
    seasonMax |-> (e.gs /\ m \in {1, 2, 3, 5}) => LeTol(Add(s.seasonIrr, f.IrrDay), c.maxSeason, Tol6),
    isDecision|-> (e.gs /\ m # 4) => Eq(f.IrrDay, s.d.irr),
    constDepth|-> (e.gs /\ m = 5) => LET dep == DepthOn(t, s.clk.tsc) IN
                                     Near(f.IrrDay, IF Gt(Add(s.seasonIrr, Min(c.maxIrr, dep)), c.maxSeason)
                                                    THEN Max(Sub(c.maxSeason, s.seasonIrr), Z) ELSE Max(Min(c.maxIrr, dep), Z), Tol6),
    netSign   |-> m = 4 => LeTol(Z, f.IrrDay, NetSlack(s.d.nRoot)) ]
ParamsC(t, s, e) ==
  LET a == s.phash b == e.phash IN
  [ geometry |-> b.geom = a.geom, hydraulic |-> b.hyd = a.hyd, soil |-> b.soil = a.soil, soilTable |-> b.soildf = a.soildf,
    irrigation |-> b.irr = a.irr /\ b.fallowirr = a.fallowirr, field |-> b.field = a.field /\ b.fallow = a.fallow,
    groundwater |-> b.gw = a.gw, weather |-> b.weather = a.weather, calendar |-> b.clockdates = a.clockdates,
    \* a season's crop parameters may change only at that season's start
    crops |-> Len(b.crops) = Len(a.crops)
              /\ \A i \in 1..Len(a.crops) : b.crops[i] = a.crops[i] \/ (e.reset /\ i = e.clock.season + 1) ]

Chk_DayEnd(t, s, e) ==
  LET led == Ledger(t, s, e)  k == K(t)
      fin == FluxFinite(t, e) /\ AllFinite(s.ws.W) /\ Finite(s.ws.pond)
      g == Growth(e)
      x == [gs |-> e.gs, first |-> (s.clk.dap + 1 = 1), wt |-> Cfg(t).wt = 1, hasZ |-> s.d.hasZ, zgw |-> s.d.zgw,
            tmin |-> s.d.Tmin, tmax |-> s.d.Tmax, et0 |-> s.d.ET0, tr |-> s.d.tr]
  IN Tag("DayEnd.finite", [ flux |-> fin ])
     \cup (IF fin THEN Tag("DayEnd.closure", DayClosureC(k, s.begin, s.ws, led))
                       \cup Tag("DayEnd.partition", DayPartitionC(k, s.begin, led)
                                   \* water can only have been standing (and be released) on a field that has bunds in some period
                                   @@ [ negInflNeedsBunds |-> (IsNeg(led.infl) /\ ~Near(led.infl, Z, Tol9)) =>
                                                                (Cfg(t).field.effBunds \/ Cfg(t).fallow.effBunds),
                                        \* the irrigation REPORTED for the day is the one that was applied (and partitioned) that day
                                        reportedIrr |-> (e.gs /\ (IF s.clk.season >= 0 THEN Cfg(t).method ELSE 0) \in {1, 2, 3, 5} /\ Finite(e.flux.IrrDay)) => Eq(e.flux.IrrDay, s.d.irr),
                                        \* ... and only on the day the bunds ARE removed (or lowered): they stood on the previous simulated day
                                        negInflOnRemovalDay |-> (IsNeg(led.infl) /\ ~Near(led.infl, Z, Tol9) /\ s.bprev.known) =>
                                                                (s.bprev.eff /\ (~s.d.bundsToday \/ Lt(s.d.zBund, s.bprev.z))) ])
                       \cup Tag("DayEnd.bounds", DayBoundsC(k, s.ws, led))
                       \cup Tag("DayEnd.signs", DaySignsC(k, led))
                       \cup Tag("DayEnd.gw", DayGwC(k, s.ws, led))
                       \cup Tag("DayEnd.irr", DayEndIrrC(t, s, e))
                ELSE {})
     \cup Tag("DayEnd.envelope", EnvelopeC(g, s.crop, s.prev, x))
     \cup Tag("DayEnd.yield", YieldC(g, s.crop, s.prev, x))
     \cup Tag("DayEnd.clock", DayEndClockC(t, s, e))
     \cup Tag("DayEnd.rows", DayEndRowsC(t, s, e))
     \cup Tag("DayEnd.summary", DayEndSummaryC(t, s, e))
Upd_DayEnd(t, s, e) ==
  LET r == ExpStep(t, s, e)
      newRow == e.nStats = s.clk.nStats + 1 /\ Has(e, "lastStat")
      add == IF e.gs /\ Finite(e.flux.IrrDay) THEN e.flux.IrrDay ELSE Z IN
  [s EXCEPT !.exp = r, !.stage = s.d.stageNow,
            !.seasonIrr = Add(s.seasonIrr, add),
            !.statIrr = IF newRow THEN e.lastStat.irr ELSE s.statIrr,
            !.hasStat = s.hasStat \/ newRow,
            !.statKeys = IF Has(e, "statKeys") THEN e.statKeys ELSE s.statKeys,
            !.bprev = [known |-> TRUE, eff |-> s.d.bundsToday, z |-> s.d.zBund]]

(***************************************************************************)
(* Advance: check_model_is_finished + update_time (+ reset) against the      *)
(* exact clock model.                                                        *)
(***************************************************************************)
AdvanceClockC(t, s, e) ==
  LET n == s.exp.next c == e.clock IN
  [ tsc |-> c.tsc = n.tsc, season |-> c.season = n.season, finished |-> c.finished = n.finished,
    dap |-> c.dap = n.dap, mature |-> c.mature = n.mature, dead |-> c.dead = n.dead,
    harvested |-> c.harvested = n.harvested, nStats |-> c.nStats = n.nStats,
    reset |-> e.reset = s.exp.reset,
    date |-> e.date = Cfg(t).startDay + c.tsc,
    chrono |-> c.tsc >= s.clk.tsc /\ (~c.finished => c.tsc > s.clk.tsc) ]
AdvanceVisibleC(t, s, e) == [ visibleIffFinished |-> e.visible = e.clock.finished ]
\* seasonal irrigation of the summary equals the sum of the daily column over the season's days
SeasonIrrC(t, s, e) == [ sum |-> (s.hasStat /\ (e.reset \/ e.clock.finished)) => Near(s.seasonIrr, s.statIrr, Tol6) ]
\* every state field that a season start resets is back at the value it had after initialisation (HIfinal follows the season's crop)
ResetFieldsC(t, s, e) ==
  IF e.reset /\ Has(e, "ic") /\ Has(s.ic0, "dap")
  THEN [f \in (DOMAIN e.ic) \ {"HIfinal"} |-> e.ic[f] = s.ic0[f]]
  ELSE [ none |-> TRUE ]
ResetC(t, s, e) ==
  LET c == Cfg(t) ws == WsOf(s, e) IN
  IF e.reset /\ ~c.offSeason
  THEN [ water |-> ws.W = c.thini,
         pond  |-> IF c.field.effBunds THEN Eq(ws.pond, Min(c.field.bundWater, c.field.zBund)) ELSE IsZero(ws.pond),
         counters |-> IsZero(e.irrCum) /\ IsZero(e.irrNetCum) /\ IsZero(e.gddCum) ]
  ELSE [ water |-> ~Has(e, "W"), pond |-> ~Has(e, "pond") ]
\* the CO2 adjustment of the water productivity a season runs with is that of ITS planting year: the factor written at the season start equals
\* the factor a fresh model started on that planting date computes at initialisation (the harness obtains it from the initialisation path)
\* the season-independent crop parameters (limits of the envelope, productivity, temperatures) of every season are those of the configured crop
ConstCropFields == {"CCx", "Zmin", "Zmax", "HI0", "dHI0", "Tbase", "Tupp", "WP", "WPy", "YldWC", "CC0", "Kcb"}
SeasonCropConstC(t, s, e) ==
  IF e.reset /\ Has(e, "crop") /\ Has(Cfg(t), "crop0")
  THEN [f \in (ConstCropFields \cap DOMAIN e.crop \cap DOMAIN Cfg(t).crop0) |-> e.crop[f] = Cfg(t).crop0[f]]
  ELSE [ none |-> TRUE ]
SeasonFco2C(t, s, e) ==
  IF e.reset /\ Has(e, "expFco2") /\ Has(e, "crop") THEN [ ofPlantingYear |-> Near(e.crop.fCO2, e.expFco2, Tol9) ] ELSE [ none |-> TRUE ]
Chk_Advance(t, s, e) == Tag("Advance.clock", AdvanceClockC(t, s, e)) \cup Tag("Advance.visible", AdvanceVisibleC(t, s, e))
                        \cup Tag("Season.irrSum", SeasonIrrC(t, s, e)) \cup Tag("Params", ParamsC(t, s, e))
                        \cup Tag(IF e.reset /\ ~Cfg(t).offSeason THEN "Reset" ELSE "Carry", ResetC(t, s, e))
                        \cup Tag("Reset.fields", ResetFieldsC(t, s, e))
                        \cup Tag("Season.fco2", SeasonFco2C(t, s, e))
                        \cup Tag("Season.cropConst", SeasonCropConstC(t, s, e))
Upd_Advance(t, s, e) ==
  [s EXCEPT !.ws = WsOf(s, e), !.clk = e.clock, !.phash = e.phash,
            !.crop = IF e.reset THEN e.crop ELSE s.crop,
            !.bprev = IF e.reset /\ ~Cfg(t).offSeason THEN [known |-> FALSE, eff |-> FALSE, z |-> Z] ELSE s.bprev,
            !.seasonIrr = IF e.reset THEN Z ELSE s.seasonIrr,
            !.hasStat = IF e.reset THEN FALSE ELSE s.hasStat,
            !.stage = IF e.reset THEN 0 ELSE s.stage,
            !.germ = IF e.reset THEN FALSE ELSE s.germ]


(***************************************************************************)
(* Dispatcher                                                               *)
(***************************************************************************)
Chk(t, s, e) ==
  CASE e.e = "Initialize"    -> Chk_Initialize(t, s, e)
    [] e.e = "DayBegin"      -> Chk_DayBegin(t, s, e)
    [] e.e = "CheckGW"       -> Chk_CheckGW(t, s, e)
    [] e.e = "RootDev"       -> {}
    [] e.e = "PreIrr"        -> Chk_PreIrr(t, s, e)
    [] e.e = "Drain"         -> Chk_Drain(t, s, e)
    [] e.e = "RainPartition" -> Chk_Rain(t, s, e)
    [] e.e = "Irrigate"      -> Chk_Irrigate(t, s, e)
    [] e.e = "Infiltrate"    -> Chk_Infiltrate(t, s, e)
    [] e.e = "CapRise"       -> Chk_CapRise(t, s, e)
    [] e.e = "Germinate"     -> Chk_Germinate(t, s, e)
    [] e.e = "GrowthStage"   -> Chk_GrowthStage(t, s, e)
    [] e.e = "Canopy"        -> Chk_Canopy(t, s, e)
    [] e.e = "Evaporate"     -> Chk_Evaporate(t, s, e)
    [] e.e = "Transpire"     -> Chk_Transpire(t, s, e)
    [] e.e = "GwInflow"      -> Chk_GwInflow(t, s, e)
    [] e.e = "HIref"         -> {}
    [] e.e = "Biomass"       -> {}
    [] e.e = "HarvestIndex"  -> Chk_Frame(t, s, e, "HarvestIndex")
    [] e.e = "RootZone"      -> Chk_RootZone(t, s, e)
    [] e.e = "DayEnd"        -> Chk_DayEnd(t, s, e)
    [] e.e = "Advance"       -> Chk_Advance(t, s, e)
    \* (an exception raised by the time stepping itself - outside every stage function - also breaks "the run always terminates" of C07)
    [] e.e = "Crash"         -> {<<"Crash", e.type, IF Has(e, "driver") /\ e.driver THEN {"C16", "C07"} ELSE {"C16"}>>}
    [] e.e = "Reject"        -> {}
    [] OTHER                 -> {<<"Unknown", e.e, {}>>}

Upd(t, s, e) ==
  CASE e.e = "Initialize"    -> Upd_Initialize(t, s, e)
    [] e.e = "DayBegin"      -> Upd_DayBegin(t, s, e)
    [] e.e = "CheckGW"       -> Upd_CheckGW(t, s, e)
    [] e.e = "PreIrr"        -> Upd_PreIrr(t, s, e)
    [] e.e = "Irrigate"      -> Upd_Irrigate(t, s, e)
    [] e.e = "Infiltrate"    -> Upd_Infiltrate(t, s, e)
    [] e.e = "CapRise"       -> Upd_CapRise(t, s, e)
    [] e.e = "GrowthStage"   -> Upd_GrowthStage(t, s, e)
    [] e.e = "Canopy"        -> Upd_Canopy(t, s, e)
    [] e.e = "Transpire"     -> Upd_Transpire(t, s, e)
    [] e.e = "RootZone"      -> Upd_RootZone(t, s, e)
    [] e.e = "DayEnd"        -> Upd_DayEnd(t, s, e)
    [] e.e = "Advance"       -> Upd_Advance(t, s, e)
    [] e.e = "Germinate"     -> Upd_Germinate(t, s, e)
    [] e.e \in {"Drain", "RainPartition", "Evaporate", "GwInflow", "HarvestIndex"} -> Upd_Frame(t, s, e)
    [] OTHER                 -> s

(***************************************************************************)
(* The trace specification: a linear chain per trace.                        *)
(***************************************************************************)
TInit == /\ tid \in 1..NT /\ l = 1 /\ st = St0 /\ viol = {}

Step == /\ l <= NE(tid)
        /\ LET e == Ev(tid, l)
               bad == Chk(tid, st, e)
           IN /\ viol' = viol \cup {<<l, b[1], b[2], b[3]>> : b \in bad}
              /\ st' = Upd(tid, st, e)
        /\ l' = l + 1
        /\ UNCHANGED tid

Done == /\ l = NE(tid) + 1
        /\ PrintT(ToJson(<<"VERDICT", tid, NE(tid), viol>>))
        /\ l' = l + 1
        /\ UNCHANGED <<tid, st, viol>>

TNext == Step \/ Done
TSpec == TInit /\ [][TNext]_vars
=============================================================================
