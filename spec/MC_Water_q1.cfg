CONSTANTS
 NComp = 2
 CapDry <- cDryS
 CapFc <- cFcS
 CapSat <- cSatS
 Ksat1 = 2
 KsatN = 2
 RainSet = {0, 3}
 IrrSet = {0, 1}
 EtSet = {0, 1}
 BundSeason = 1
 BundFallow = 0
 Tables = {0, 2}
 NetIrr = FALSE
 OffSeason = FALSE
 Days = 2
SPECIFICATION Spec
INVARIANT C01_Closure
INVARIANT C02_Partition
INVARIANT C03_Bounds
INVARIANT C04_Signs
INVARIANT C19_Table
INVARIANT C03_Always
PROPERTY C01_CarryOver
CHECK_DEADLOCK FALSE
