------------------------------- MODULE Num -------------------------------
(***************************************************************************)
(* Exact decimal fixed-point numbers for TLC (TLC integers are 32 bit and   *)
(* TLA+ has no floating point).                                             *)
(*                                                                          *)
(* A number is a pair <<hi, lo>> denoting  hi * 10^-4 + lo * 10^-12  with    *)
(* hi an integer (|value| < 2*10^5) and lo in 0 .. 10^8-1 (floor form, so   *)
(* negative values have hi < 0 and lo >= 0).  The harness converts an IEEE   *)
(* double with exact rational arithmetic and rounds once to 10^-12.          *)
(* A non-finite double (nan, +inf, -inf) is the triple <<0, 0, k>> with      *)
(* k in {1,2,3}; only Finite() accepts/rejects it, every other operator     *)
(* must be guarded by Finite.                                               *)
(*                                                                          *)
(* The model-checking instances use the same operators on the sub-lattice   *)
(* <<n, 0>> (n a small natural), so relations are written once.             *)
(***************************************************************************)
EXTENDS Integers, Sequences

LoBase == 100000000

Finite(x) == Len(x) = 2
AllFinite(s) == \A i \in 1..Len(s) : Finite(s[i])

Z == <<0, 0>>
N(h) == <<h, 0>>                          \* h units of 10^-4
Units(u) == <<u * 10000, 0>>              \* integer u (|u| < 200000)
Milli(m) == <<m * 10, 0>>                 \* m * 10^-3
Tiny(l) == <<0, l>>                       \* l * 10^-12,  0 <= l < 10^8

Norm(h, l) == <<h + (l \div LoBase), l % LoBase>>
Add(a, b) == Norm(a[1] + b[1], a[2] + b[2])
Sub(a, b) == Norm(a[1] - b[1], a[2] - b[2])
Neg(a)    == Norm(-a[1], -a[2])
Le(a, b)  == a[1] < b[1] \/ (a[1] = b[1] /\ a[2] <= b[2])
Lt(a, b)  == a[1] < b[1] \/ (a[1] = b[1] /\ a[2] < b[2])
Eq(a, b)  == a[1] = b[1] /\ a[2] = b[2]
Ge(a, b)  == Le(b, a)
Gt(a, b)  == Lt(b, a)
IsNeg(a)  == a[1] < 0
IsPos(a)  == a[1] > 0 \/ (a[1] = 0 /\ a[2] > 0)
IsZero(a) == a[1] = 0 /\ a[2] = 0
Abs(a)    == IF IsNeg(a) THEN Neg(a) ELSE a
Min(a, b) == IF Le(a, b) THEN a ELSE b
Max(a, b) == IF Le(a, b) THEN b ELSE a
Near(a, b, tol) == Le(Abs(Sub(a, b)), tol)
LeTol(a, b, tol) == Le(a, Add(b, tol))    \* a <= b + tol

RECURSIVE SumTo(_, _)
SumTo(s, n) == IF n = 0 THEN Z ELSE Add(SumTo(s, n - 1), s[n])
Sum(s) == SumTo(s, Len(s))
\* sum of s[i] for i in lo..hi
RECURSIVE SumRange(_, _, _)
SumRange(s, lo, hi) == IF hi < lo THEN Z ELSE Add(SumRange(s, lo, hi - 1), s[hi])

\* exact small-integer multiple by repeated addition (k <= 1000 in practice)
RECURSIVE Times(_, _)
Times(a, k) == IF k = 0 THEN Z ELSE Add(Times(a, k - 1), a)

(***************************************************************************)
(* Products.  A non-negative number is split into 5 limbs of base 10^4       *)
(* (least significant first, unit 10^-12); products are limb sequences of    *)
(* unit 10^-24 compared without ever rounding.                              *)
(***************************************************************************)
B4 == 10000
Limbs(a) == << a[2] % B4, a[2] \div B4,
               a[1] % B4, (a[1] \div B4) % B4, a[1] \div (B4 * B4) >>

\* column sums of the schoolbook product, x and y limb sequences
Col(x, y, k) ==
  LET RECURSIVE C(_)
      C(i) == IF i > Len(x) THEN 0
              ELSE (IF k + 1 - i >= 1 /\ k + 1 - i <= Len(y) THEN x[i] * y[k + 1 - i] ELSE 0) + C(i + 1)
  IN C(1)

\* carry propagation over a sequence of column sums; result has one more limb
RECURSIVE Carry(_, _, _)
Carry(cols, i, c) ==
  IF i > Len(cols) THEN <<c>>
  ELSE LET t == cols[i] + c IN <<t % B4>> \o Carry(cols, i + 1, t \div B4)

LMul(x, y) == Carry([k \in 1..(Len(x) + Len(y) - 1) |-> Col(x, y, k)], 1, 0)
LGet(x, i) == IF i <= Len(x) THEN x[i] ELSE 0
LMaxLen(x, y) == IF Len(x) >= Len(y) THEN Len(x) ELSE Len(y)
LAdd(x, y) == Carry([i \in 1..LMaxLen(x, y) |-> LGet(x, i) + LGet(y, i)], 1, 0)
LShift(x, n) == [i \in 1..n |-> 0] \o x                       \* times 10^(4n)
\* comparison from the most significant limb
RECURSIVE LLeFrom(_, _, _)
LLeFrom(x, y, i) == IF i = 0 THEN TRUE
                    ELSE IF LGet(x, i) < LGet(y, i) THEN TRUE
                    ELSE IF LGet(x, i) > LGet(y, i) THEN FALSE
                    ELSE LLeFrom(x, y, i - 1)
LLe(x, y) == LLeFrom(x, y, LMaxLen(x, y))

\* absolute slack of products: 10^-9 (in unit 10^-24 that is 10^15 = limb 4 * 1000)
ProdEps == <<0, 0, 0, 1000>>
\*  a*b <= c*d*(1 + 10^-8) + 10^-9       (all four non-negative numbers)
MulLe(a, b, c, d) ==
  LET p == LMul(Limbs(a), Limbs(b))
      q == LMul(Limbs(c), Limbs(d))
  IN LLe(LShift(p, 2), LAdd(LAdd(LShift(q, 2), q), LShift(ProdEps, 2)))
\*  a*b ~ c*d  within relative 10^-8 and absolute 10^-9
MulNear(a, b, c, d) == MulLe(a, b, c, d) /\ MulLe(c, d, a, b)
\*  a*b*c <= d*e*f*(1+10^-8) + 10^-8
\*  (absolute slack 10^-8: each factor is a double floored to 10^-12, and the other two factors of a triple product reach 10^3..10^4 -
\*   a transpiration of 10^-5 mm at the very end of a season is known to 10^-12 only, i.e. to 10^-7 relative)
ProdEps3 == <<0, 0, 0, 0, 1>>
Mul3Le(a, b, c, d, e, f) ==
  LET p == LMul(LMul(Limbs(a), Limbs(b)), Limbs(c))
      q == LMul(LMul(Limbs(d), Limbs(e)), Limbs(f))
      eps == LShift(ProdEps3, 3)          \* unit is 10^-36 here
  IN LLe(LShift(p, 2), LAdd(LAdd(LShift(q, 2), q), LShift(eps, 2)))

(***************************************************************************)
(* Rounded arithmetic that returns a Num again (error < 2 * 10^-12):         *)
(* products of non-negative numbers truncated to 10^-12, halves, hundredths. *)
(***************************************************************************)
Huge == <<2000000000, 0>>                                  \* saturation value (outside the representable range)
MulPos(a, b) == LET p == LMul(Limbs(a), Limbs(b))          \* unit 10^-24: drop three limbs
                IN IF p[8] > 20 \/ p[9] # 0 \/ p[10] # 0 THEN Huge
                   ELSE <<p[6] + p[7] * B4 + p[8] * B4 * B4, p[4] + p[5] * B4>>
Mul(a, b) == IF IsNeg(a) = IsNeg(b) THEN MulPos(Abs(a), Abs(b)) ELSE Neg(MulPos(Abs(a), Abs(b)))
Half(a)   == Norm(a[1] \div 2, (a[1] % 2) * 50000000 + (a[2] \div 2))
Div100(a) == Norm(a[1] \div 100, (a[1] % 100) * 1000000 + (a[2] \div 100))
Clamp(x, lo, hi) == Max(lo, Min(x, hi))
=============================================================================
