SPECIFICATION RSpec
CHECK_DEADLOCK FALSE
