------------------------------ MODULE IrrRel ------------------------------
(***************************************************************************)
(* The irrigation decision of one day (stage 6) as an EXACT relation          *)
(* (property C13).  Inputs are the values the decision reads, the output is  *)
(* the depth applied.  Threshold comparisons are made by cross-              *)
(* multiplication; inside a band of 1e-9 around a threshold either branch    *)
(* is accepted (exact rationals here, IEEE doubles in the implementation).   *)
(*                                                                          *)
(* a: [method, gs, dap, stage (growth stage at decision time, 1..4),         *)
(*     smt (Seq of 4 Num, % of TAW), appEff, maxIrr, interval, sched (depth  *)
(*     scheduled for today's date), depth, maxSeason, irrCumPrev,            *)
(*     depl, taw (estimated root-zone depletion and TAW),                    *)
(*     irr, irrCum (outputs)]                                               *)
(***************************************************************************)
EXTENDS Num, FiniteSets

ITol == Tiny(1000)          \* 1e-9
Band == Tiny(1000)          \* don't-care band around thresholds

\* requirement: depletion refilled, adjusted for application efficiency:  max(0,depl) * (200 - appEff) / 100
IrrReq(a) == Div100(Mul(Max(a.depl, Z), Sub(Units(200), a.appEff)))
\* allowable depletion test  depl / taw > 1 - smt/100   <=>   100*depl > taw*(100 - smt)     (taw > 0)
StageIdx(a) == IF a.dap = 1 THEN 1 ELSE a.stage
Lhs(a) == Mul(Max(a.depl, Z), Units(100))
Rhs(a) == Mul(a.taw, Sub(Units(100), a.smt[StageIdx(a)]))
MustIrr(a)    == IsPos(a.depl) /\ Gt(Lhs(a), Add(Rhs(a), Band))
MustNotIrr(a) == ~IsPos(a.depl) \/ Lt(Lhs(a), Sub(Rhs(a), Band))

\* seasonal cap, applied to every strategy
Capped(a, x) == IF Gt(Add(a.irrCumPrev, x), a.maxSeason) THEN Max(Sub(a.maxSeason, a.irrCumPrev), Z) ELSE x
Amount(a) == Min(a.maxIrr, IrrReq(a))

\* the set of admissible outputs is described by a predicate on a.irr
Decision(a) ==
  IF ~a.gs THEN IsZero(a.irr)
  ELSE CASE a.method = 0 -> IsZero(a.irr)
         [] a.method = 1 -> \/ (~MustNotIrr(a) /\ Near(a.irr, Capped(a, Max(Amount(a), Z)), ITol))
                            \/ (~MustIrr(a) /\ Near(a.irr, Capped(a, Z), ITol))
         [] a.method = 2 -> IF a.interval > 0 /\ (a.dap - 1) % a.interval = 0
                            THEN Near(a.irr, Capped(a, Max(Amount(a), Z)), ITol)
                            ELSE IsZero(a.irr)
         [] a.method = 3 -> Near(a.irr, Capped(a, Max(Min(a.maxIrr, a.sched), Z)), ITol)
         [] a.method = 4 -> IsZero(a.irr)
         [] a.method = 5 -> Near(a.irr, Capped(a, Max(Min(a.maxIrr, a.depth), Z)), ITol)
         [] OTHER -> TRUE

IrrigateC(a) ==
  [ decision  |-> Decision(a),
    offSeason |-> (~a.gs) => (IsZero(a.irr) /\ IsZero(a.irrCum)),
    rainfed   |-> a.method = 0 => IsZero(a.irr),
    netNoSurf |-> a.method = 4 => IsZero(a.irr),
    sign      |-> Ge(a.irr, Z),
    dailyMax  |-> a.method \in {1, 2, 3, 5} => LeTol(a.irr, a.maxIrr, ITol),
    cumul     |-> a.gs => Near(a.irrCum, Add(a.irrCumPrev, a.irr), ITol),
    seasonMax |-> a.gs => LeTol(a.irrCum, Max(a.maxSeason, a.irrCumPrev), ITol),
    interval  |-> (a.gs /\ a.method = 2 /\ IsPos(a.irr)) => (a.interval > 0 /\ (a.dap - 1) % a.interval = 0) ]
=============================================================================
