CONSTANTS
 Configs <- cConfigs
SPECIFICATION Spec
INVARIANT AtDone
PROPERTY LayerStable
PROPERTY OnlyGrows
PROPERTY Termination
CHECK_DEADLOCK FALSE
