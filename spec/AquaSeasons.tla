---------------------------- MODULE AquaSeasons ----------------------------
(***************************************************************************)
(* Season independence (property C08) as a two-run model.                    *)
(*                                                                          *)
(* Run A simulates seasons 1..NSeasons of a window without simulating the     *)
(* off-season: after the harvest day it jumps to the next planting date and   *)
(* calls the season-start reset.  Run B is a fresh model started on the       *)
(* planting date of season K.  Both runs receive the SAME weather (one input  *)
(* per calendar date, chosen by TLC) and the same configuration.  The daily   *)
(* step is an arbitrary but fixed function of (state, input): it is modelled  *)
(* with everything the real step carries from one day to the next -           *)
(*   w     soil water (a small lattice),                                     *)
(*   pond  water behind bunds,                                               *)
(*   cnt   a stress / delay counter (germination delay, aeration days, ...),  *)
(*   dem   the evaporative demand of the LAST simulated day, which the         *)
(*         irrigation decision of the next day reads (e_pot / t_pot),         *)
(*   cum   irrigation cumulated over the season (seasonal cap),               *)
(*   flags mature / dead / harvested.                                        *)
(* The specification's claim: because Reset puts EVERY one of these back to    *)
(* its configured initial value, A's state on day d of season K equals B's     *)
(* state on its day d, for every weather sequence (Independent).              *)
(* ResetSet is a constant so that the negative instances (one field left out   *)
(* of the reset) show the invariant is not vacuous: TLC then finds a weather   *)
(* sequence that tells the two runs apart (bin/selftest).                     *)
(*                                                                          *)
(* Implementation binding: Trace!ResetFieldsC (every state field equals its    *)
(* post-initialisation value after each season reset of traced multi-season    *)
(* runs) and Equiv rule "seasonOffset" (season K of a real multi-season run    *)
(* vs a real fresh run, rows and crop parameters).                            *)
(***************************************************************************)
EXTENDS Integers, FiniteSets, TLC

CONSTANTS NSeasons,      \* seasons of run A
          SeasonLen,     \* days to maturity
          K,             \* run B starts at season K (2..NSeasons)
          MaxW,          \* water lattice 0..MaxW
          W0,            \* configured initial water content
          Cap,           \* seasonal irrigation cap
          ResetSet       \* fields the season-start reset restores; the full set is Fields

Fields == {"w", "pond", "cnt", "dem", "cum", "mature", "dead"}
Init0 == [w |-> W0, pond |-> 0, cnt |-> 0, dem |-> 0, cum |-> 0, mature |-> FALSE, dead |-> FALSE]

VARIABLES a, b,          \* [season, dap, s : state record, done]
          inp            \* today's weather: [rain : 0..2, dry : BOOLEAN]
vars == <<a, b, inp>>

Min(x, y) == IF x <= y THEN x ELSE y
Max(x, y) == IF x >= y THEN x ELSE y

\* one simulated in-season day: a fixed function of (state, weather)
Step(s, dap, wx) ==
  LET irr   == IF s.dem > 0 /\ s.w = 0 /\ s.cum < Cap THEN 1 ELSE 0        \* decision reads yesterday's demand and the seasonal cap
      inflow== wx.rain + irr + s.pond
      w1    == Min(MaxW, s.w + inflow)
      pond1 == Min(1, Max(0, s.w + inflow - MaxW))                          \* excess stands behind the bunds (at most 1)
      use   == IF wx.dry /\ w1 > 0 THEN 1 ELSE 0
      w2    == w1 - use
      cnt1  == IF w2 = 0 THEN s.cnt + 1 ELSE s.cnt
      dead1 == s.dead \/ cnt1 >= 3
      mat1  == s.mature \/ (dap + 1 - (IF s.cnt > 0 THEN 1 ELSE 0)) >= SeasonLen   \* a delayed start delays maturity
  IN [w |-> w2, pond |-> pond1, cnt |-> cnt1, dem |-> (IF wx.dry THEN 1 ELSE 0), cum |-> s.cum + irr, mature |-> mat1, dead |-> dead1]

Reset(s) == [f \in Fields |-> IF f \in ResetSet THEN Init0[f] ELSE s[f]]

Wx == [rain : 0..2, dry : BOOLEAN]

Init == /\ a = [season |-> 1, dap |-> 0, s |-> Init0, done |-> FALSE]
        /\ b = [season |-> K, dap |-> 0, s |-> Init0, done |-> FALSE]
        /\ inp \in Wx

\* A advances one day of its current season; at the end of the season it jumps to the next planting date and resets
ADay == /\ ~a.done
        /\ LET s1 == Step(a.s, a.dap, inp)
               over == s1.mature \/ s1.dead
           IN a' = IF ~over THEN [a EXCEPT !.dap = a.dap + 1, !.s = s1]
                   ELSE IF a.season < NSeasons THEN [season |-> a.season + 1, dap |-> 0, s |-> Reset(s1), done |-> FALSE]
                   ELSE [a EXCEPT !.dap = a.dap + 1, !.s = s1, !.done = TRUE]
BDay == /\ ~b.done
        /\ LET s1 == Step(b.s, b.dap, inp)
           IN b' = [b EXCEPT !.dap = b.dap + 1, !.s = s1, !.done = s1.mature \/ s1.dead]

\* calendar: while A is before season K only A moves (B's planting date has not come); in season K both see the same date's weather
Next == /\ inp' \in Wx
        /\ IF a.season < K THEN ADay /\ UNCHANGED b
           ELSE IF a.season = K /\ ~b.done THEN ADay /\ BDay
           ELSE UNCHANGED <<a, b>>
Spec == Init /\ [][Next]_vars

TypeOK == /\ a.season \in 1..NSeasons /\ b.season = K
          /\ a.s.w \in 0..MaxW /\ b.s.w \in 0..MaxW /\ a.s.pond \in 0..1 /\ b.s.pond \in 0..1
\* C08: on the same day of season K the two runs are in the same state
Independent == (a.season = K /\ ~b.done /\ a.dap = b.dap) => a.s = b.s
\* ... and they end the season on the same day with the same outcome (the summary row)
SameOutcome == (a.season = K /\ b.done /\ a.dap = b.dap) => (a.s.mature = b.s.mature /\ a.s.dead = b.s.dead /\ a.s.cum = b.s.cum)
=============================================================================
