CONSTANTS
 Pairs <- cPairsQuick
 Lo <- cLoQ
 Hi = 100
SPECIFICATION Spec
INVARIANT Range
INVARIANT MonoMax
INVARIANT MonoMin
INVARIANT Agree
CHECK_DEADLOCK FALSE
