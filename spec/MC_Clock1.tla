---- MODULE MC_Clock1 ----
EXTENDS AquaClock
cWindows == { [start |-> <<2000,2,27>>, end |-> <<2002,6,30>>, plant |-> <<3,1>>, harv |-> <<>>, maturity |-> 15, thermal |-> FALSE, off |-> o, die |-> d] : o \in BOOLEAN, d \in BOOLEAN }
====
