---- MODULE MC_Clock1 ----
EXTENDS AquaClock
\* three seasons of a 15-day crop planted on 1 March, start three days before the first planting date
cWindows == { [start |-> <<2000,2,27>>, end |-> <<2002,6,30>>, plant |-> <<3,1>>, harv |-> <<>>, maturity |-> 15, thermal |-> FALSE, off |-> o, die |-> d] : o \in BOOLEAN, d \in BOOLEAN }
\* quick instance: the same window without crop death, plus a one-season window in which the crop may die or mature early (thermal)
cWindowsQ == { [start |-> <<2000,2,27>>, end |-> <<2002,6,30>>, plant |-> <<3,1>>, harv |-> <<>>, maturity |-> 15, thermal |-> FALSE, off |-> o, die |-> FALSE] : o \in BOOLEAN }
              \cup { [start |-> <<1999,12,20>>, end |-> <<2001,2,10>>, plant |-> <<12,25>>, harv |-> h, maturity |-> 15, thermal |-> t, off |-> o, die |-> TRUE] : o \in BOOLEAN, t \in BOOLEAN, h \in {<<>>, <<1,5>>} }
====
