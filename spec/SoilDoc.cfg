SPECIFICATION DSpec
CHECK_DEADLOCK FALSE
