------------------------------- MODULE Equiv -------------------------------
(***************************************************************************)
(* Lock-step comparison of two recorded executions (properties C08-C11,      *)
(* C14, C15, C19 "far table", C20).                                          *)
(*                                                                          *)
(* The specification makes the observable result of a run a function of      *)
(* (configuration, weather restricted to the window BY DATE and BY NAME, own  *)
(* call history up to the total step count).  Two concrete runs A and B with  *)
(* the same abstract argument must therefore produce identical rows on the    *)
(* ALIGNMENT the rule defines.  Alignment is always by calendar date: row of   *)
(* date n is rowsA[n - startA + 1] / rowsB[n - startB + 1].                   *)
(*                                                                          *)
(* Each row is logged as content digests of column groups (IEEE bit patterns, *)
(* NaN canonicalised):  fi / gi / si = the index columns (step counter,       *)
(* season counter) of the flux / growth / storage tables, fz = the water-table *)
(* depth column, f / g / s = all other columns.  Summary rows:  [date, y =     *)
(* digest(dry, fresh, potential yield, seasonal irrigation), season, step].    *)
(*                                                                          *)
(* Rules (what must agree, over which dates):                                 *)
(*  "identity"     all groups, every row of the common window, all summary     *)
(*                 rows incl. season / step, completion status                 *)
(*  "seasonOffset" (C08) A multi-season run, B a fresh single-season run       *)
(*                 started on the planting date of season k: groups f,g,s on   *)
(*                 every day B simulated; B's summary row equals A's row of    *)
(*                 the same harvest date                                      *)
(*  "prefix"       (C14) all groups on every date before `cut`                *)
(*  "seasons"      (C14 extension) all groups on every date up to the harvest  *)
(*                 date of A's last summary row; A's summary rows are a prefix  *)
(*                 of B's                                                     *)
(*  "ignoreZgw"    (C19) all groups except fz, every row, all summary rows     *)
(***************************************************************************)
EXTENDS Integers, Sequences, FiniteSets, Json, IOUtils, TLC

Pairs == JsonDeserialize(IOEnv.TRACE_FILE)
NP == Len(Pairs)
VARIABLES pid, verdict
vars == <<pid, verdict>>

EndA(p) == p.startA + Len(p.rowsA) - 1
EndB(p) == p.startB + Len(p.rowsB) - 1
RowA(p, n) == p.rowsA[n - p.startA + 1]
RowB(p, n) == p.rowsB[n - p.startB + 1]
Lo(p) == IF p.startA >= p.startB THEN p.startA ELSE p.startB
Hi(p) == IF EndA(p) <= EndB(p) THEN EndA(p) ELSE EndB(p)

Groups(rule) == CASE rule = "identity" -> {"fi", "fz", "f", "gi", "g", "si", "s"}
                  [] rule = "prefix" -> {"fi", "fz", "f", "gi", "g", "si", "s"}
                  [] rule = "seasons" -> {"fi", "fz", "f", "gi", "g", "si", "s"}
                  [] rule = "seasonOffset" -> {"fz", "f", "g", "s"}
                  [] rule = "ignoreZgw" -> {"fi", "f", "gi", "g", "si", "s"}
                  [] OTHER -> {"fi", "fz", "f", "gi", "g", "si", "s"}

LastStatDate(p) == IF Len(p.statsA) = 0 THEN p.startA - 1 ELSE p.statsA[Len(p.statsA)].date - 1

\* the dates on which the rows must agree
Dates(p) ==
  CASE p.rule = "prefix"       -> {n \in Lo(p)..Hi(p) : n < p.cut}
    [] p.rule = "seasons"      -> {n \in Lo(p)..Hi(p) : n <= LastStatDate(p)}
    [] p.rule = "seasonOffset" -> {n \in Lo(p)..Hi(p) : RowB(p, n).sim}
    [] OTHER                   -> Lo(p)..Hi(p)

DiffGroups(p, n) == {g \in Groups(p.rule) : RowA(p, n)[g] # RowB(p, n)[g]}
BadDates(p) == {n \in Dates(p) : DiffGroups(p, n) # {}}
MinOf(S) == CHOOSE x \in S : \A y \in S : x <= y

\* summary rows
StatKey(r) == <<r.date, r.y>>
StatsOk(p) ==
  CASE p.rule \in {"identity", "ignoreZgw"} -> p.statsA = p.statsB
    [] p.rule = "seasonOffset" -> \A i \in 1..Len(p.statsB) : \E j \in 1..Len(p.statsA) : StatKey(p.statsA[j]) = StatKey(p.statsB[i])
    [] p.rule = "seasons" -> /\ Len(p.statsA) <= Len(p.statsB)
                             /\ \A i \in 1..Len(p.statsA) : p.statsA[i] = p.statsB[i]
    [] p.rule = "prefix" -> \A i \in 1..Len(p.statsA) : p.statsA[i].date <= p.cut =>
                               (i <= Len(p.statsB) /\ p.statsA[i] = p.statsB[i])
    [] OTHER -> TRUE
\* (C08) the crop parameters a season runs with - its calendar in particular - are those a fresh run started on its planting date computes:
\* the summary row of B's season and A's row of the same harvest date were produced with identical crop parameters
Has0(r, f) == f \in DOMAIN r
CropsOk(p) ==
  IF p.rule # "seasonOffset" \/ ~Has0(p, "cropsA") \/ Len(p.cropsA) = 0 \/ Len(p.cropsB) = 0 THEN TRUE
  ELSE \A i \in 1..Len(p.statsB) : \A j \in 1..Len(p.statsA) :
          (p.statsA[j].date = p.statsB[i].date /\ p.statsA[j].season + 1 <= Len(p.cropsA) /\ p.statsB[i].season + 1 <= Len(p.cropsB))
             => p.cropsA[p.statsA[j].season + 1] = p.cropsB[p.statsB[i].season + 1]
\* shape: identical windows where the rule demands it; completion status
ShapeOk(p) ==
  CASE p.rule \in {"identity", "ignoreZgw"} -> p.startA = p.startB /\ Len(p.rowsA) = Len(p.rowsB) /\ p.finishedA = p.finishedB
    [] p.rule = "seasonOffset" -> \E n \in Lo(p)..Hi(p) : RowB(p, n).sim
    [] OTHER -> TRUE

\* C09: per run call of the sliced run B: the model reports itself finished exactly when the total number of
\* steps requested reaches the length T of the uninterrupted run, the summary is visible exactly then, and a call
\* never runs past termination (steps simulated = min(total requested, T))
Has(r, f) == f \in DOMAIN r
CallsOk(p) == IF ~Has(p, "calls") THEN TRUE
              ELSE \A i \in 1..Len(p.calls) :
                     LET c == p.calls[i] IN
                     /\ c.finished = (c.cum >= p.T \/ c.k = 0)
                     /\ c.visible = c.finished /\ c.info = c.finished
                     /\ c.nsteps = (IF c.cum >= p.T \/ c.k = 0 THEN p.T ELSE c.cum)

Judge(p) == LET bad == BadDates(p) IN
  [ok |-> bad = {} /\ StatsOk(p) /\ ShapeOk(p) /\ CallsOk(p) /\ CropsOk(p), calls |-> CallsOk(p), crops |-> CropsOk(p),
   firstBad |-> IF bad = {} THEN 0 ELSE MinOf(bad),
   groups |-> IF bad = {} THEN {} ELSE DiffGroups(p, MinOf(bad)),
   nBad |-> Cardinality(bad), stats |-> StatsOk(p), shape |-> ShapeOk(p), compared |-> Cardinality(Dates(p))]

EInit == pid \in 1..NP /\ verdict = Judge(Pairs[pid])
ENext == /\ verdict # <<>> /\ PrintT(ToJson(<<"VERDICT", pid, verdict>>)) /\ verdict' = <<>> /\ UNCHANGED pid
ESpec == EInit /\ [][ENext]_vars
=============================================================================
