"""Exact decimal fixed-point encoding of IEEE doubles for the TLA+ side (see spec/Num.tla).

value = hi * 1e-4 + lo * 1e-12, hi integer, 0 <= lo < 1e8 (floor form).
Non-finite -> [0, 0, k]  (k = 1 nan, 2 +inf, 3 -inf).
"""
from fractions import Fraction
import math

LO = 10 ** 8
SCALE = 10 ** 12
HI_MAX = 2 ** 31 - 1


def to_num(x):
    if x is None:
        return [0, 0, 1]
    if isinstance(x, bool):
        x = int(x)
    try:
        xf = float(x)
    except (TypeError, ValueError):
        return [0, 0, 1]
    if math.isnan(xf):
        return [0, 0, 1]
    if math.isinf(xf):
        return [0, 0, 2 if xf > 0 else 3]
    fr = Fraction(xf) * SCALE
    n = fr.numerator // fr.denominator
    rem = fr - n
    if rem * 2 >= 1:          # round half up (deterministic)
        n += 1
    hi, lo = divmod(n, LO)
    if abs(hi) > HI_MAX // 4:  # out of the representable range: treat as non-finite (overflow tag 4)
        return [0, 0, 4]
    return [int(hi), int(lo)]


def from_num(p):
    if len(p) != 2:
        return {1: float('nan'), 2: float('inf'), 3: float('-inf'), 4: float('inf')}[p[2]]
    return (p[0] * LO + p[1]) / SCALE


def vec(a):
    return [to_num(v) for v in a]


def bits(x):
    """IEEE-754 bit pattern of a double as four 16-bit ints (canonical NaN)."""
    import struct
    xf = float(x)
    if math.isnan(xf):
        q = 0x7FF8000000000000
    else:
        q = struct.unpack('<Q', struct.pack('<d', xf))[0]
    return [(q >> 48) & 0xFFFF, (q >> 32) & 0xFFFF, (q >> 16) & 0xFFFF, q & 0xFFFF]
