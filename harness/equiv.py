"""Two-run (lock-step equivalence) machinery: executing jobs on the real code, projecting result tables to
row digests, and having TLC (spec/Equiv.tla) judge pairs."""
import copy
import json
import os
import signal
import subprocess
import sys
import time
import traceback
import warnings

import numpy as np
import pandas as pd

import common as C
from tracer import digest, hexf, ordinal

FLUX_IDX = [0, 1]
FLUX_ZGW = [4]
GROW_IDX = [0, 1]
STOR_IDX = [0]


def _arr(t):
    return t.values if hasattr(t, "values") else np.asarray(t)


def crop_key(c):
    """value-level digest of a season's crop parameters (numbers by value, whatever their Python type; date strings excluded: the default
    harvest date is derived from the window's first season)"""
    out = []
    for k in sorted(vars(c)):
        v = getattr(c, k)
        if isinstance(v, str) or v is None:
            continue
        try:
            out.append((k, [hexf(x) for x in np.asarray(v, dtype=float).ravel()]))
        except Exception:
            out.append((k, repr(v)))
    return digest(json.dumps(out))


def tables_doc(model):
    out = model._outputs
    cs = model._clock_struct
    flux, grow, stor = _arr(out.water_flux).astype(float), _arr(out.crop_growth).astype(float), _arr(out.water_storage).astype(float)
    rows = []
    nf = flux.shape[1]
    frest = [i for i in range(nf) if i not in FLUX_IDX + FLUX_ZGW]
    grest = [i for i in range(grow.shape[1]) if i not in GROW_IDX]
    srest = [i for i in range(stor.shape[1]) if i not in STOR_IDX]
    for i in range(flux.shape[0]):
        rows.append({"fi": digest(flux[i, FLUX_IDX]), "fz": digest(flux[i, FLUX_ZGW]), "f": digest(flux[i, frest]),
                     "gi": digest(grow[i, GROW_IDX]), "g": digest(grow[i, grest]),
                     "si": digest(stor[i, STOR_IDX]), "s": digest(stor[i, srest]),
                     "sim": bool(np.any(stor[i, 3:] != 0))})
    stats = []
    fs = out.final_stats
    for j in range(len(fs)):
        r = fs.iloc[j]
        stats.append({"date": ordinal(r.iloc[2]), "y": digest([float(r.iloc[4]), float(r.iloc[5]), float(r.iloc[6]), float(r.iloc[7])]),
                      "season": int(r.iloc[0]), "step": int(r.iloc[3]), "crop": str(r.iloc[1])})
    crops = [crop_key(c) for c in (getattr(model._param_struct, "Seasonal_Crop_List", None) or [])]
    return {"start": ordinal(cs.simulation_start_date), "rows": rows, "stats": stats, "finished": bool(cs.model_is_finished), "crops": crops,
            "nfinite": int(np.sum(~np.isfinite(np.delete(flux, FLUX_ZGW, axis=1))) + np.sum(~np.isfinite(grow)) + np.sum(~np.isfinite(stor)))}


def transform_weather(df, tr):
    """weather-table transformations of C15 (spec/Equiv.tla rule 'identity' must hold against the canonical table)"""
    if not tr:
        return df
    df = df.copy()
    if tr.get("pad_before"):
        n = int(tr["pad_before"])
        first = df.Date.iloc[0]
        extra = pd.DataFrame({"MinTemp": [1.5] * n, "MaxTemp": [44.0] * n, "Precipitation": [99.0] * n, "ReferenceET": [9.9] * n,
                              "Date": pd.date_range(first - pd.Timedelta(days=n), periods=n, freq="D")})
        df = pd.concat([extra, df], ignore_index=True)
    if tr.get("pad_after"):
        n = int(tr["pad_after"])
        last = df.Date.iloc[-1]
        extra = pd.DataFrame({"MinTemp": [-3.0] * n, "MaxTemp": [48.0] * n, "Precipitation": [77.0] * n, "ReferenceET": [0.3] * n,
                              "Date": pd.date_range(last + pd.Timedelta(days=1), periods=n, freq="D")})
        df = pd.concat([df, extra], ignore_index=True)
    if tr.get("pad_sparse"):            # leading / trailing records outside the window that are NOT a gap-free daily sequence
        first, last = df.Date.iloc[0], df.Date.iloc[-1]
        dts = [first - pd.Timedelta(days=k) for k in (4000, 3650, 3000, 2999, 800, 40, 3)] + [last + pd.Timedelta(days=k) for k in (2, 30, 400)]
        extra = pd.DataFrame({"MinTemp": [2.5] * len(dts), "MaxTemp": [41.0] * len(dts), "Precipitation": [88.0] * len(dts), "ReferenceET": [8.8] * len(dts), "Date": dts})
        df = pd.concat([extra, df], ignore_index=True).sort_values("Date").reset_index(drop=True)
    if tr.get("gap_before"):            # a month of records missing BEFORE the window
        g0 = pd.to_datetime(tr["gap_before"]) - pd.Timedelta(days=200)
        df = df[~((df.Date >= g0) & (df.Date < g0 + pd.Timedelta(days=28)))]
    if tr.get("trim_before"):
        df = df[df.Date >= pd.to_datetime(tr["trim_before"])]
    if tr.get("trim_after"):
        df = df[df.Date <= pd.to_datetime(tr["trim_after"])]
    for name, pos, kind in tr.get("extra_cols", []):
        if kind == "num":
            vals = list(range(len(df)))
        elif kind == "nan":          # an unrelated measurement with gaps
            vals = [float("nan") if (i % 11) in (3, 4) else 0.5 * i for i in range(len(df))]
        elif kind == "none":
            vals = [None if (i % 13) == 5 else "s%d" % (i % 5) for i in range(len(df))]
        else:
            vals = ["x%d" % (i % 7) for i in range(len(df))]
        df.insert(min(int(pos), len(df.columns)), name, vals)
    if tr.get("perm"):
        req = ["MinTemp", "MaxTemp", "Precipitation", "ReferenceET", "Date"]
        others = [c for c in df.columns if c not in req]
        new_req = [req[i] for i in tr["perm"]]
        # keep extra columns at their positions, permute the required ones among their slots
        cols = list(df.columns)
        slots = [i for i, c in enumerate(cols) if c in req]
        for s, c in zip(slots, new_req):
            cols[s] = c
        df = df[cols]
    ix = tr.get("index")
    if ix == "shifted":
        df.index = range(1000, 1000 + len(df))
    elif ix == "datetime":
        df.index = pd.DatetimeIndex(df.Date.values)
    elif ix == "datetime_shifted":          # a DatetimeIndex that is NOT the Date column (dates 90 days later / at noon / of another year)
        df.index = pd.DatetimeIndex(df.Date.values) + pd.Timedelta(days=90)
    elif ix == "datetime_noon":
        df.index = pd.DatetimeIndex(df.Date.values) + pd.Timedelta(hours=12)
    elif ix == "datetime_other":
        df.index = pd.date_range("1950-01-01", periods=len(df), freq="D")
    elif ix == "year":                       # NON-UNIQUE labels: the calendar year of each record / one constant label
        df.index = [int(d.year) for d in df.Date]
    elif ix == "const":
        df.index = [0] * len(df)
    elif ix == "labels":
        df.index = ["r%05d" % ((i * 7919) % 100003) for i in range(len(df))]
    elif ix == "range":
        df = df.reset_index(drop=True)
    return df


def perturb_weather(df, p):
    """C14: change variables from date `cut` on"""
    if not p:
        return df
    df = df.copy()
    m = df.Date >= pd.to_datetime(p["cut"])
    for var in p["vars"]:
        col = {"T": None, "P": "Precipitation", "E": "ReferenceET"}[var]
        if var == "T":
            df.loc[m, "MinTemp"] = df.loc[m, "MinTemp"] + float(p.get("dT", 6.0))
            df.loc[m, "MaxTemp"] = df.loc[m, "MaxTemp"] + float(p.get("dT", 6.0))
        elif var == "P":
            df.loc[m, col] = (df.loc[m, col] * 0.0 + float(p.get("P", 37.0)))
        else:
            df.loc[m, col] = (df.loc[m, col] * float(p.get("Ef", 1.7))).clip(lower=0.1)
    return df


def build(sc, objs=None):
    """model of scenario sc.  sc['_prelude'] = {start, end, ...}: ANOTHER model (same user objects, the listed keys overridden - typically another
    window) is built from the very same objects and run to termination first; the returned model is then built from those used objects."""
    import scenario as S
    if objs is None:
        objs = S.make_objects(sc)
        objs["weather_df"] = perturb_weather(objs["weather_df"], sc.get("_perturb"))
        objs["weather_df"] = transform_weather(objs["weather_df"], sc.get("_wx"))
        if sc.get("_prelude"):
            return S.make_model_after_prelude(sc, objs)
    return S.make_model(sc, objs), objs


def exec_job(job):
    """Runs in a worker process.  job kinds:
       plain    : one run to termination
       sliced   : job['slices'] = list of step counts (0 = till termination)
       history  : job['ops'] over a pool of instances; result = tables of instance job['target']
       reuse    : job['n'] earlier runs with the same user objects; job['mode'] in {'rerun','newmodel'}"""
    warnings.filterwarnings("ignore")
    res = {"ok": True, "calls": []}
    try:
        kind = job["kind"]
        if kind == "plain":
            m, _ = build(job["scenario"])
            m.run_model(till_termination=True)
            res["tables"] = tables_doc(m)
            res["visible"] = m.get_simulation_results() is not False
        elif kind == "sliced":
            m, _ = build(job["scenario"])
            first = True
            for k in job["slices"]:
                if k == 0:
                    m.run_model(till_termination=True, initialize_model=first)
                else:
                    m.run_model(num_steps=int(k), initialize_model=first)
                first = False
                fin = bool(m._clock_struct.model_is_finished)
                res["calls"].append({"k": int(k), "finished": fin, "info": bool(m.get_additional_information()["has_model_finished"]),
                                     "visible": m.get_simulation_results() is not False,
                                     "nsteps": int(np.sum(np.any(_arr(m._outputs.water_storage)[:, 3:] != 0, axis=1)))})
                if fin:
                    break
            res["tables"] = tables_doc(m)
            res["visible"] = m.get_simulation_results() is not False
        elif kind == "reuse":
            sc = job["scenario"]
            m, objs = build(sc)
            m.run_model(till_termination=True)
            res["first"] = tables_doc(m)
            for i in range(int(job["n"])):
                if job["mode"] == "rerun":
                    m.run_model(till_termination=True)          # initialize_model=True again on the same object
                else:
                    m, _ = build(sc, objs)
                    m.run_model(till_termination=True)
            res["tables"] = tables_doc(m)
        elif kind == "history":
            pool = {}
            inited = {}
            for op in job["ops"]:
                i = op["i"]
                if op["op"] == "new":
                    pool[i], _ = build(job["configs"][op["c"]])
                    inited[i] = False
                elif op["op"] == "reject":
                    try:                                   # a configuration the model rejects: the attempt raises (if it does not, it is just another model)
                        mm, _ = build(job["configs"][op["c"]])
                        mm.run_model(num_steps=1)
                    except Exception:
                        pass
                elif op["op"] == "step":
                    if pool[i]._clock_struct.model_is_finished if inited[i] else False:
                        continue
                    pool[i].run_model(num_steps=int(op["k"]), initialize_model=not inited[i])
                    inited[i] = True
                elif op["op"] == "rerun":
                    pool[i].run_model(till_termination=True)          # the same instance again (re-initialises)
                    inited[i] = True
                elif op["op"] == "finish":
                    if inited[i] and pool[i]._clock_struct.model_is_finished:
                        continue
                    pool[i].run_model(till_termination=True, initialize_model=not inited[i])
                    inited[i] = True
            res["tables"] = tables_doc(pool[job["target"]])
        else:
            raise ValueError("unknown job kind " + str(kind))
    except BaseException as exc:  # noqa
        res["ok"] = False
        res["error"] = {"type": type(exc).__name__, "msg": str(exc)[:300], "tb": traceback.format_exc()[-1800:]}
    return res


def _job_worker(args):
    job, tmo = args
    sys.path.insert(0, os.path.join(C.ROOT, "harness"))
    signal.signal(signal.SIGALRM, C._alarm)
    signal.setitimer(signal.ITIMER_REAL, tmo)
    try:
        return exec_job(job)
    except C.RunTimeout:
        return {"ok": False, "error": {"type": "NonTermination", "msg": f"no result within {tmo}s"}}
    finally:
        signal.setitimer(signal.ITIMER_REAL, 0)


def run_jobs(jobs, timeout=240, procs=None):
    return C.pmap(_job_worker, [(j, timeout) for j in jobs], jobs=procs)


def run_job_subprocess(job, hashseed="0", timeout=300):
    """fresh interpreter with a given PYTHONHASHSEED (C10)"""
    env = dict(os.environ)
    env["PYTHONHASHSEED"] = str(hashseed)
    code = ("import sys, json, warnings; warnings.filterwarnings('ignore'); sys.path.insert(0, %r); import equiv; "
            "job = json.loads(sys.stdin.read()); print('\\n@@RESULT@@' + json.dumps(equiv.exec_job(job)))" % os.path.join(C.ROOT, "harness"))
    p = subprocess.run(["/venv/bin/python", "-c", code], input=json.dumps(job), capture_output=True, text=True, timeout=timeout, env=env)
    for line in p.stdout.splitlines():
        if line.startswith("@@RESULT@@"):
            return json.loads(line[len("@@RESULT@@"):])
    return {"ok": False, "error": {"type": "SubprocessFailure", "msg": (p.stderr or p.stdout)[-500:]}}


def pair_doc(rule, a, b, cut=None):
    d = {"rule": rule, "startA": a["start"], "startB": b["start"], "rowsA": a["rows"], "rowsB": b["rows"],
         "statsA": a["stats"], "statsB": b["stats"], "finishedA": a["finished"], "finishedB": b["finished"], "cut": int(cut or 0),
         "cropsA": a.get("crops", []), "cropsB": b.get("crops", [])}
    return d
