"""C17: sweeps of the real response functions along a lattice, recorded as (argument, value) call events."""
import math
import random
import warnings

import numpy as np

from num import to_num

warnings.filterwarnings("ignore")


def frange(a, b, n):
    return [a + (b - a) * i / (n - 1) for i in range(n)]


def crop_obj(name, **kw):
    from aquacrop import Crop
    return Crop(name, planting_date="05/01", **kw)


def pts(args, vals):
    return [[to_num(a), to_num(v)] for a, v in zip(args, vals)]


def sweeps_for_crop(name, dense=False, rnd=None):
    from aquacrop.solution.water_stress import water_stress
    from aquacrop.solution.temperature_stress import temperature_stress
    from aquacrop.solution.growing_degree_day import growing_degree_day
    from aquacrop.solution.cc_development import cc_development
    from aquacrop.solution.cc_required_time import cc_required_time
    rnd = rnd or random.Random(0)
    c = crop_obj(name)
    out = []
    taw = 100.0
    n = 141 if dense else 57
    drs = frange(-0.2 * taw, 1.2 * taw, n)
    et0s = [0.1, 1.0, 3.0, 5.0, 8.0, 14.0, 20.0] if dense else [0.1, 5.0, 20.0, rnd.choice([1.0, 3.0, 8.0, 14.0])]
    names = ["exp", "sto", "sen", "pol", "sto_lin"]
    # both settings of the ET adjustment of the thresholds (the crop's own and the other one); every sweep is evaluated a second time in the
    # REVERSE order of arguments: a response FUNCTION gives the same value for the same arguments whatever was evaluated before ("again")
    for et0, etadj in [(e, a) for e in et0s for a in sorted({int(c.ETadj), 0}, reverse=True)]:
        for tes in (0, 3):
            cols = [[] for _ in range(5)]
            for dr in drs:
                r = water_stress(c.p_up, c.p_lo, etadj, c.beta, c.fshape_w, tes, dr, taw, et0, True)
                for k in range(5):
                    cols[k].append(float(r[k]))
            back = [[] for _ in range(5)]
            for dr in reversed(drs):
                r = water_stress(c.p_up, c.p_lo, etadj, c.beta, c.fshape_w, tes, dr, taw, et0, True)
                for k in range(5):
                    back[k].append(float(r[k]))
            for k in range(5):
                s = {"f": "water_stress." + names[k], "crop": name, "kind": "mono", "dir": "noninc", "lo": to_num(0), "hi": to_num(1),
                     "pts": pts(drs, cols[k]), "x": {"et0": to_num(et0), "tEarlySen": tes, "etAdj": etadj}, "again": [to_num(v) for v in reversed(back[k])],
                     "bounds": [{"below": to_num(0.0), "value": to_num(1.0)}, {"above": to_num(taw), "value": to_num(0.0)}]}
                if names[k] == "pol":
                    pup, plo = min(max(float(c.p_up[3]), 0), 1), min(max(float(c.p_lo[3]), 0), 1)
                    s["kind"] = "linear"
                    s["x"] = {"pup": to_num(pup), "plo": to_num(plo), "taw": to_num(taw)}
                out.append(s)
    # pollination temperature stress
    temps = frange(-30.0, 60.0, 181 if dense else 91)
    heat = [float(temperature_stress(c, t, 10.0)[0]) for t in temps]
    cold = [float(temperature_stress(c, 30.0, t)[1]) for t in temps]
    hb = []
    if c.PolHeatStress == 1:
        hb = [{"below": to_num(min(c.Tmax_lo, c.Tmax_up) - 1e-6), "value": to_num(1.0)}, {"above": to_num(max(c.Tmax_lo, c.Tmax_up) + 1e-6), "value": to_num(0.0)}]
    cb = []
    if c.PolColdStress == 1:
        cb = [{"above": to_num(max(c.Tmin_up, c.Tmin_lo) + 1e-6), "value": to_num(1.0)}, {"below": to_num(min(c.Tmin_up, c.Tmin_lo) - 1e-6), "value": to_num(0.0)}]
    out.append({"f": "temperature_stress.heat", "crop": name, "kind": "mono", "dir": "noninc", "lo": to_num(0), "hi": to_num(1), "pts": pts(temps, heat), "x": {}, "bounds": hb})
    out.append({"f": "temperature_stress.cold", "crop": name, "kind": "mono", "dir": "nondec", "lo": to_num(0), "hi": to_num(1), "pts": pts(temps, cold), "x": {}, "bounds": cb})
    # growing degree days: every method, sweep tmax for fixed tmin and tmin for fixed tmax (arbitrary decimals, not only the half-degree lattice)
    for method in (1, 2, 3):
        for fixed in ([-12.3, 4.0, 11.7, 25.0, 41.1] if dense else [rnd.choice([-12.3, 4.0]), 11.7, rnd.choice([25.0, 41.1])]):
            ts = [round(t + rnd.uniform(-0.2, 0.2), 2) for t in frange(-30, 60, 91 if dense else 46)]
            ts.sort()
            for vary in ("tmax", "tmin"):
                vals = [float(growing_degree_day(method, c.Tupp, c.Tbase, t, fixed)) if vary == "tmax" else float(growing_degree_day(method, c.Tupp, c.Tbase, fixed, t)) for t in ts]
                out.append({"f": f"growing_degree_day.m{method}.{vary}", "crop": name, "kind": "gdd", "dir": "nondec", "lo": to_num(0), "hi": to_num(c.Tupp - c.Tbase),
                            "pts": pts(ts, vals), "bounds": [],
                            "x": {"method": method, "tupp": to_num(c.Tupp), "tbase": to_num(c.Tbase), "fixed": to_num(fixed), "vary": vary}})
    # canopy growth / decline curves in the crop's own time unit
    cgc = float(c.CGC_CD if c.CalendarType == 1 else c.CGC)
    cdc = float(c.CDC_CD if c.CalendarType == 1 else c.CDC)
    tmax = float(c.MaturityCD if c.CalendarType == 1 else c.Maturity)
    ts = frange(0.0, 1.3 * tmax, 121 if dense else 61)
    growth = [float(cc_development(c.CC0, c.CCx, cgc, cdc, t, "Growth", c.CCx)) for t in ts]
    decline = [float(cc_development(c.CC0, c.CCx, cgc, cdc, t, "Decline", c.CCx)) for t in ts]
    out.append({"f": "cc_development.growth", "crop": name, "kind": "mono", "dir": "nondec", "lo": to_num(0), "hi": to_num(c.CCx), "pts": pts(ts, growth), "x": {}, "bounds": [{"at": to_num(0.0), "value": to_num(c.CC0)}]})
    out.append({"f": "cc_development.decline", "crop": name, "kind": "mono", "dir": "noninc", "lo": to_num(0), "hi": to_num(c.CCx), "pts": pts(ts, decline), "x": {}, "bounds": [{"at": to_num(0.0), "value": to_num(c.CCx)}]})
    # growth curve as the model evaluates it under leaf-expansion stress: adjusted CCx below the crop's CCx (= CCx0)
    for f in ([0.3, 0.5, 0.6, 0.75, 0.9, 0.98] if dense else [0.6, rnd.choice([0.3, 0.5, 0.75, 0.9])]):
        ccxa = f * float(c.CCx)
        g = [float(cc_development(c.CC0, ccxa, cgc, cdc, t, "Growth", c.CCx)) for t in ts]
        out.append({"f": "cc_development.growth.adjCCx", "crop": name, "kind": "mono", "dir": "nondec", "lo": to_num(0), "hi": to_num(ccxa),
                    "pts": pts(ts, g), "x": {"CCx": to_num(ccxa), "CCx0": to_num(c.CCx)}, "bounds": []})
        cs2 = frange(float(c.CC0), 0.98 * ccxa, 40 if dense else 24)
        back2 = []
        for cv in cs2:
            t = cc_required_time(cv, c.CC0, ccxa, cgc, cdc, "CGC")
            back2.append(float(cc_development(c.CC0, ccxa, cgc, cdc, t, "Growth", c.CCx)))
        out.append({"f": "cc_required_time.inverse.adjCCx", "crop": name, "kind": "inverse", "dir": "nondec", "lo": to_num(0), "hi": to_num(ccxa),
                    "pts": pts(cs2, back2), "x": {"CCx": to_num(ccxa), "CCx0": to_num(c.CCx)}, "bounds": []})
    # a few perturbed canopy parameter sets (C17 quantifies over canopy parameters)
    for j in range(4 if dense else 1):
        ccx = rnd.uniform(0.3, 0.99)
        cc0 = rnd.uniform(0.001, 0.1)
        g = rnd.uniform(0.005, 0.3)
        d = rnd.uniform(0.002, 0.2)
        ts2 = frange(0.0, 400.0, 81)
        out.append({"f": "cc_development.growth*", "crop": name, "kind": "mono", "dir": "nondec", "lo": to_num(0), "hi": to_num(ccx),
                    "pts": pts(ts2, [float(cc_development(cc0, ccx, g, d, t, "Growth", ccx)) for t in ts2]), "x": {}, "bounds": []})
        out.append({"f": "cc_development.decline*", "crop": name, "kind": "mono", "dir": "noninc", "lo": to_num(0), "hi": to_num(ccx),
                    "pts": pts(ts2, [float(cc_development(cc0, ccx, g, d, t, "Decline", ccx)) for t in ts2]), "x": {}, "bounds": []})
    # inverse: growth(required_time(c)) = c for c in [CC0, 0.98 CCx]
    cs = frange(float(c.CC0), 0.98 * float(c.CCx), 60 if dense else 30) + [float(c.CCx) * (1.0 - 10.0 ** (-k)) for k in (2, 3, 4, 5, 6)] + [float(c.CCx) - 3e-7]
    back = []
    for cv in cs:
        t = cc_required_time(cv, c.CC0, c.CCx, cgc, cdc, "CGC")
        back.append(float(cc_development(c.CC0, c.CCx, cgc, cdc, t, "Growth", c.CCx)))
    out.append({"f": "cc_required_time.inverse", "crop": name, "kind": "inverse", "dir": "nondec", "lo": to_num(0), "hi": to_num(c.CCx), "pts": pts(cs, back), "x": {}, "bounds": []})
    return out


def fco2_sweep(name, concs):
    """CO2 productivity factor of a crop as the model computes it at initialisation (constant concentration)"""
    import scenario as S
    import scenlib as L
    vals = []
    for x in concs:
        sc = L.scenario(name, "SandyLoam", seed=1, co2={"constant_conc": True, "current_concentration": float(x)})
        m = S.make_model(sc)
        try:
            m._initialize()
            vals.append(float(m._param_struct.Seasonal_Crop_List[0].fCO2))
        except AssertionError:
            return None
    return {"f": "fCO2", "crop": name, "kind": "mono", "dir": "nondec", "lo": to_num(0.5), "hi": to_num(3.0), "pts": pts(concs, vals), "x": {},
            "bounds": [{"at": to_num(369.41), "value": to_num(1.0)}]}


def fco2_ref_sweep(name, concs, ref, later):
    """the factor with a user-specified reference concentration (CO2(ref_concentration=ref)): 1 at the reference, non-decreasing"""
    import scenario as S
    import scenlib as L
    from aquacrop.timestep.reset_initial_conditions import reset_initial_conditions
    vals = []
    for x in concs:
        sc = L.scenario(name, "SandyLoam", seed=1, seasons=2 if later else 1, co2={"constant_conc": True, "current_concentration": float(x), "ref_concentration": float(ref)})
        m = S.make_model(sc)
        try:
            m._initialize()
        except AssertionError:
            return None
        if later:
            cs = m._clock_struct
            if int(cs.n_seasons) < 2:
                return None
            cs.season_counter = 1
            cs.step_start_time = cs.planting_dates[1]
            reset_initial_conditions(cs, m._init_cond, m._param_struct, m._weather, m.crop)
            vals.append(float(m._param_struct.Seasonal_Crop_List[1].fCO2))
        else:
            vals.append(float(m._param_struct.Seasonal_Crop_List[0].fCO2))
    return {"f": "fCO2.ref%d%s" % (int(ref), ".laterSeason" if later else ""), "crop": name, "kind": "mono", "dir": "nondec", "lo": to_num(0.5), "hi": to_num(3.0), "pts": pts(concs, vals),
            "x": {"ref": to_num(ref)}, "bounds": [{"at": to_num(ref), "value": to_num(1.0)}]}


def fco2_later_season_sweep(name, concs):
    """the same factor as the model recomputes it at the start of every later season (timestep/reset_initial_conditions.py has its own copy
    of the formula): two-season window, initialised, then the season-start reset of season 2 is called as update_time does"""
    import scenario as S
    import scenlib as L
    from aquacrop.timestep.reset_initial_conditions import reset_initial_conditions
    vals = []
    for x in concs:
        sc = L.scenario(name, "SandyLoam", seed=1, seasons=2, co2={"constant_conc": True, "current_concentration": float(x)})
        m = S.make_model(sc)
        try:
            m._initialize()
        except AssertionError:
            return None
        cs = m._clock_struct
        if int(cs.n_seasons) < 2:
            return None
        cs.season_counter = 1
        cs.step_start_time = cs.planting_dates[1]
        reset_initial_conditions(cs, m._init_cond, m._param_struct, m._weather, m.crop)
        vals.append(float(m._param_struct.Seasonal_Crop_List[1].fCO2))
    return {"f": "fCO2.laterSeason", "crop": name, "kind": "mono", "dir": "nondec", "lo": to_num(0.5), "hi": to_num(3.0), "pts": pts(concs, vals), "x": {},
            "bounds": [{"at": to_num(369.41), "value": to_num(1.0)}]}


def crop_worker(args):
    name, dense, seed = args
    import random as _r
    return sweeps_for_crop(name, dense, _r.Random(seed))


def fco2_worker(args):
    name, concs = args[0], args[1]
    if len(args) > 2 and args[2] == "later":
        return fco2_later_season_sweep(name, concs)
    if len(args) > 2 and isinstance(args[2], (list, tuple)):
        return fco2_ref_sweep(name, concs, args[2][0], args[2][1])
    return fco2_sweep(name, concs)
