#!/venv/bin/python
"""Developer tool: run a scenario family and list every clause failure (all properties + fidelity)."""
import sys, os, json, time, random, warnings
warnings.filterwarnings("ignore")
sys.path.insert(0, os.path.dirname(os.path.abspath(__file__)))
import common as C, tlc
from collections import Counter

def main():
    fam, tier, seed = sys.argv[1], sys.argv[2] if len(sys.argv) > 2 else "quick", int(sys.argv[3]) if len(sys.argv) > 3 else 0
    modname, fn = fam.split(".")
    mod = __import__("checks." + modname, fromlist=[fn])
    scs = getattr(mod, fn)(tier, seed)
    t = time.time()
    docs = C.run_traced(scs, timeout=180)
    print("traced", len(docs), round(time.time() - t, 1))
    oc = Counter((d['outcome']['status'], d['outcome'].get('type'), d['outcome'].get('stage'), d['outcome'].get('msg', '')[:70]) for d in docs)
    for k, n in oc.most_common():
        print(n, k)
    ok = [d for d in docs if d['cfg'] is not None]
    res, st = tlc.validate_traces(ok)
    print("validated", st)
    c = Counter(); ex = {}
    for d, r in zip(ok, res):
        for v in r:
            k = (v[1], v[2], tuple(v[3])); c[k] += 1
            ex.setdefault(k, (d['scenario'], v[0], d['events'][v[0] - 1]))
    out = []
    for k, n in c.most_common(80):
        sc, i, e = ex[k]
        print(n, k, sc['crop']['name'], sc['soil'].get('type'), (sc.get('irr') or {}).get('method'), 'ev', i)
        out.append({"key": list(k), "n": n, "scenario": sc, "ev": i, "event": {a: b for a, b in e.items() if a != 'phash'}})
    json.dump(out, open('/tmp/sweep_last.json', 'w'), default=str)

main()
