"""Harness-side tracer: records one event per pipeline stage of every simulated day.

No source hook is needed: the stages are module-level names looked up in
`aquacrop.timestep.run_single_timestep` (and `reset_initial_conditions` in `aquacrop.timestep.update_time`);
the tracer rebinds those names to recording wrappers while a traced run is in progress and restores
them afterwards.  The linearisation point of an event is the return of the stage function.

The projection implemented here (implementation state -> abstract state of spec/AquaDay.tla) is the
single projection used by trace validation and by replay of TLC behaviours.
"""
import hashlib
import math
import os
import traceback

import numpy as np
import pandas as pd

from num import to_num, vec

GUARD = "AQUACROP_VERIF"

STAGES = [
    "check_groundwater_table", "root_development", "pre_irrigation", "drainage", "rainfall_partition",
    "irrigation", "infiltration", "capillary_rise", "germination", "growth_stage", "canopy_cover",
    "soil_evaporation", "transpiration", "groundwater_inflow", "HIref_current_day",
    "biomass_accumulation", "harvest_index", "root_zone_water",
]

FLUX_COLS = ["time_step_counter", "season_counter", "dap", "Wr", "z_gw", "surface_storage", "IrrDay", "Infl",
             "Runoff", "DeepPerc", "CR", "GwIn", "Es", "EsPot", "Tr", "TrPot"]
GROWTH_COLS = ["time_step_counter", "season_counter", "dap", "gdd", "gdd_cum", "z_root", "canopy_cover",
               "canopy_cover_ns", "biomass", "biomass_ns", "harvest_index", "harvest_index_adj", "DryYield",
               "FreshYield", "YieldPot"]


def ordinal(ts):
    return int(pd.Timestamp(ts).toordinal())


def digest(*parts):
    h = hashlib.blake2b(digest_size=8)
    for p in parts:
        if isinstance(p, np.ndarray):
            a = np.ascontiguousarray(p)
            if a.dtype.kind == "f":
                a = np.where(np.isnan(a), np.float64("nan"), a)  # canonical NaN
            h.update(str(a.dtype).encode())
            h.update(str(a.shape).encode())
            h.update(a.tobytes())
        elif isinstance(p, (pd.Series, pd.Index)):
            h.update(digest(np.asarray(p.values if hasattr(p, "values") else p)).encode())
        elif isinstance(p, pd.DataFrame):
            for c in p.columns:
                h.update(str(c).encode())
                h.update(digest(p[c]).encode())
        elif isinstance(p, float):
            h.update(b"f" + (b"nan" if math.isnan(p) else float(p).hex().encode()))
        elif isinstance(p, (list, tuple)):
            h.update(b"[")
            for q in p:
                h.update(digest(q).encode())
            h.update(b"]")
        elif isinstance(p, dict):
            for k in sorted(p):
                h.update(str(k).encode())
                h.update(digest(p[k]).encode())
        else:
            h.update(repr(p).encode())
    return h.hexdigest()


def obj_digest(o, skip=()):
    d = {}
    for k, v in vars(o).items():
        if k in skip:
            continue
        d[k] = v
    return digest(d)


def hexf(x):
    """bit-exact text of a double (canonical NaN); used where the spec demands identity"""
    x = float(x)
    if math.isnan(x):
        return "nan"
    return x.hex()


def row_digest(row):
    return digest(np.asarray(row, dtype=float))


class Tracer:
    def __init__(self, model, scenario=None, stages=True, level="full", rowhex=False):
        self.rowhex = rowhex
        self.model = model
        self.scenario = scenario
        # an independent copy of the user's weather table, by date (taken before the model has touched it)
        self._wxref = {}
        try:
            wdf = model.weather_df
            for dte, a, b, c, d in zip(wdf["Date"], wdf["MinTemp"], wdf["MaxTemp"], wdf["Precipitation"], wdf["ReferenceET"]):
                self._wxref[ordinal(dte)] = (float(a), float(b), float(c), float(d))
        except Exception:
            self._wxref = {}
        self._depth_plan = sorted((scenario or {}).get("irr", {}).get("depth_plan", []) if (scenario or {}).get("irr") else [])
        self.events = []
        self.cfg = None
        self.stages = stages
        self.level = level          # "full": stage events; "day": DayBegin/DayEnd/Advance only; "clock": no numerics
        self._orig = {}
        self._last_th = None
        self._last_pond = None
        self._last_fc = None
        self._gs = None
        self._cur_stage = None
        self._in_stage = False
        self._dz = None
        self.outcome = None

    # ------------------------------------------------------------------ patching
    def _patch(self):
        import aquacrop.timestep.run_single_timestep as rst
        import aquacrop.timestep.update_time as ut
        self._rst, self._ut = rst, ut
        missing = []
        for name in STAGES:
            if not hasattr(rst, name):
                missing.append(name)
                continue
            self._orig[name] = getattr(rst, name)
            setattr(rst, name, self._wrap(name, self._orig[name]))
        self._orig_reset = getattr(ut, "reset_initial_conditions", None)
        if self._orig_reset is not None:
            ut.reset_initial_conditions = self._wrap_reset(self._orig_reset)
        self.missing_stages = missing

    def _unpatch(self):
        for name, f in self._orig.items():
            setattr(self._rst, name, f)
        if self._orig_reset is not None:
            self._ut.reset_initial_conditions = self._orig_reset
        self._orig = {}

    def _wrap_reset(self, f):
        def w(*a, **k):
            self._reset_called = True
            return f(*a, **k)
        return w

    def _wrap(self, name, f):
        handler = getattr(self, "_ev_" + name)

        def w(*a, **k):
            self._cur_stage = name
            self._in_stage = True
            ret = f(*a, **k)
            self._in_stage = False          # (stays True when the stage function raises)
            if self.level == "full":
                try:
                    ev = handler(a, k, ret)
                except Exception as exc:  # tracer problem, never hide: record it
                    ev = {"e": "TracerError", "stage": name, "msg": repr(exc)}
                if ev is not None:
                    self.events.append(ev)
            elif name == "pre_irrigation":
                self._gs = bool(a[3])
            return ret
        return w

    # ------------------------------------------------------------------ projection helpers
    def _W(self, th):
        return np.asarray(th, dtype=float) * self._dz * 1000.0

    def _wp(self, ev, th=None, pond=None):
        """delta-encode water state: W / pond only present when bitwise changed since the last event"""
        if th is not None:
            t = np.array(th, dtype=float)
            if self._last_th is None or t.shape != self._last_th.shape or t.tobytes() != self._last_th.tobytes():
                ev["W"] = vec(self._W(t))
                self._last_th = t.copy()
        if pond is not None:
            p = float(pond)
            if self._last_pond is None or hexf(p) != hexf(self._last_pond):
                ev["pond"] = to_num(p)
                self._last_pond = p
        return ev

    def _cond(self):
        return self.model._init_cond

    # ------------------------------------------------------------------ stage events
    def _ev_check_groundwater_table(self, a, k, ret):
        fc, wt, z = ret
        ev = {"e": "CheckGW", "wtInSoil": bool(wt) if wt is not None else False, "hasZ": z is not None}
        fcb = np.asarray(fc, dtype=float).tobytes()
        if fcb != self._last_fc:
            ev["fcAdj"] = vec(np.asarray(fc, dtype=float) * self._dz * 1000.0)
            self._last_fc = fcb
        if z is not None:
            ev["zgw"] = to_num(z)
        return self._wp(ev, th=a[2])

    def _ev_root_development(self, a, k, ret):
        z, rcor = ret
        return {"e": "RootDev", "zroot": to_num(z), "zrootPrev": to_num(a[3]), "germ": bool(a[11])}

    def _ev_pre_irrigation(self, a, k, ret):
        cond, pre = ret
        self._gs = bool(a[3])
        ev = {"e": "PreIrr", "preIrr": to_num(pre), "gs": self._gs}
        return self._wp(ev, th=cond.th, pond=cond.surface_storage)

    def _ev_drainage(self, a, k, ret):
        th, dp, flux = ret
        ev = {"e": "Drain", "dp": to_num(dp)}
        return self._wp(ev, th=th)

    def _ev_rainfall_partition(self, a, k, ret):
        ro, infl, sub = ret
        ev = {"e": "RainPartition", "P": to_num(a[0]), "runoff": to_num(ro), "infl": to_num(infl),
              "srInhb": bool(a[3]), "bunds": bool(a[4]), "zBund": to_num(a[5]),
              "cnAdjPct": to_num(a[6]), "cn": to_num(a[7]), "adjCn": int(a[8])}
        return self._wp(ev, th=self._cond().th)

    def _ev_irrigation(self, a, k, ret):
        dep, taw, cum, irr = ret
        tsc = int(a[15])
        sched = a[5]
        try:
            s_today = float(sched[tsc])
        except Exception:
            s_today = float("nan")
        ev = {"e": "Irrigate", "method": int(a[0]), "smt": vec(np.asarray(a[1], dtype=float)),
              "appEff": to_num(a[2]), "maxIrr": to_num(a[3]), "interval": int(a[4]),
              "sched": to_num(s_today), "depth": to_num(a[6]), "maxSeason": to_num(a[7]),
              "stage": int(a[8]), "irrCumPrev": to_num(a[9]), "dap": int(a[14]), "gs": bool(a[19]),
              "depl": to_num(dep), "taw": to_num(taw), "irrCum": to_num(cum), "irr": to_num(irr)}
        # the root-zone depletion the decision is based on, re-derived by the harness from the state the stage was given (root_zone_water called
        # on its own: root-zone depletion + yesterday's demand - today's rain + runoff - water held above field capacity in the root zone)
        if bool(a[19]):
            try:
                from aquacrop.solution.root_zone_water import root_zone_water as _rzw
                crop, prof = a[16], a[17]
                r = _rzw(prof, float(a[12]), np.asarray(a[13], dtype=float), a[18], float(crop.Zmin), crop.Aer)
                dr_rz, taw_rz, th_act, th_fc = float(r[2]), float(r[4]), float(r[5]), float(r[7])
                abv = (th_act - th_fc) * 1000.0 * max(float(a[12]), float(crop.Zmin)) if th_act > th_fc else 0.0
                rain, runoff = float(a[20]), float(a[21])
                ev["deplExp"] = to_num(dr_rz + float(a[11]) + float(a[10]) - rain + runoff - abv)
                ev["tawExp"] = to_num(taw_rz)
            except Exception:
                pass
        return self._wp(ev, th=self._cond().th)

    def _ev_infiltration(self, a, k, ret):
        th, pond, dp, ro, infl, flux = ret
        ev = {"e": "Infiltrate", "dp": to_num(dp), "runoff": to_num(ro), "infl": to_num(infl),
              "inflIn": to_num(a[4]), "irr": to_num(a[5]), "appEff": to_num(a[6]),
              "bunds": bool(a[7]), "zBund": to_num(a[8]), "dp0": to_num(a[10]), "runoff0": to_num(a[11]),
              "gs": bool(a[12]), "ksat1": to_num(a[0].Ksat[0])}
        return self._wp(ev, th=th, pond=pond)

    def _ev_capillary_rise(self, a, k, ret):
        cond, cr = ret
        ev = {"e": "CapRise", "cr": to_num(cr), "wt": int(a[5])}
        return self._wp(ev, th=cond.th)

    def _ev_germination(self, a, k, ret):
        cond = ret
        ev = {"e": "Germinate", "germ": bool(cond.germination), "gs": bool(a[6]), "delayedCds": to_num(cond.delayed_cds),
              "delayedGdds": to_num(cond.delayed_gdds), "gdd": to_num(a[5])}
        return self._wp(ev, th=cond.th, pond=cond.surface_storage)

    def _ev_growth_stage(self, a, k, ret):
        cond = ret
        crop = a[0]
        tadj = (cond.dap - cond.delayed_cds) if int(crop.CalendarType) == 1 else (cond.gdd_cum - cond.delayed_gdds)
        ev = {"e": "GrowthStage", "stage": int(cond.growth_stage), "gs": bool(a[2]), "tadj": to_num(tadj),
              "c10": to_num(crop.Canopy10Pct), "maxc": to_num(crop.MaxCanopy), "sen": to_num(crop.Senescence),
              # the comparisons in IEEE doubles (the 1e-12 fixed point cannot tell equality from a difference of 1e-13)
              "cmp": [bool(tadj <= crop.Canopy10Pct), bool(tadj <= crop.MaxCanopy), bool(tadj <= crop.Senescence)]}
        return self._wp(ev, th=cond.th, pond=cond.surface_storage)

    def _ev_canopy_cover(self, a, k, ret):
        cond = ret
        ev = {"e": "Canopy", "cc": to_num(cond.canopy_cover), "ccns": to_num(cond.canopy_cover_ns),
              "ccadj": to_num(cond.canopy_cover_adj), "dead": bool(cond.crop_dead),
              "premat": bool(cond.premat_senes)}
        return self._wp(ev, th=cond.th, pond=cond.surface_storage)

    def _ev_soil_evaporation(self, a, k, ret):
        epot, th, st2, wst2, wsurf, pond, evz, es, espot = ret
        ev = {"e": "Evaporate", "es": to_num(es), "espot": to_num(espot), "evapZ": to_num(evz), "et0": to_num(a[34]),
              "kex": to_num(a[7]), "zmin": to_num(a[4]), "zmax": to_num(a[5])}
        return self._wp(ev, th=th, pond=pond)

    def _ev_transpiration(self, a, k, ret):
        tr, trns, trpot, cond, irrnet = ret
        ev = {"e": "Transpire", "tr": to_num(tr), "trpot": to_num(trpot), "trpotns": to_num(trns),
              "irrnet": to_num(irrnet), "method": int(a[4]), "gs": bool(a[9]),
              "irrNetCum": to_num(cond.irr_net_cum), "zroot": to_num(cond.z_root)}
        return self._wp(ev, th=cond.th, pond=cond.surface_storage)

    def _ev_groundwater_inflow(self, a, k, ret):
        cond, gwin = ret
        ev = {"e": "GwInflow", "gwin": to_num(gwin), "wtInSoil": bool(cond.wt_in_soil)}
        return self._wp(ev, th=cond.th, pond=cond.surface_storage)

    def _ev_HIref_current_day(self, a, k, ret):
        hiref, yf, lag = ret
        return {"e": "HIref", "hiref": to_num(hiref), "yieldForm": bool(yf)}

    def _ev_biomass_accumulation(self, a, k, ret):
        b, bns = ret
        crop = a[0]
        return {"e": "Biomass", "b": to_num(b), "bns": to_num(bns), "bPrev": to_num(a[5]), "bnsPrev": to_num(a[6]),
                "tr": to_num(a[7]), "trpotns": to_num(a[8]), "et0": to_num(a[9]), "gs": bool(a[10])}

    def _ev_harvest_index(self, a, k, ret):
        cond = ret
        ev = {"e": "HarvestIndex", "hi": to_num(cond.harvest_index), "hiadj": to_num(cond.harvest_index_adj)}
        return self._wp(ev, th=cond.th, pond=cond.surface_storage)

    def _ev_root_zone_water(self, a, k, ret):
        return {"e": "RootZone", "wr": to_num(ret[0]), "nRoot": int(min(np.sum(a[0].dzsum < round(max(float(a[1]), float(a[4])), 2)) + 1, len(a[0].dzsum)))}

    # ------------------------------------------------------------------ constants / digests
    def _season_crop(self, s):
        ps = self.model._param_struct
        if s < 0:
            c = ps.Fallow_Crop
        else:
            c = ps.Seasonal_Crop_List[s]
        out = {"calendarType": int(c.CalendarType)}
        for nm in ("CCx", "Zmin", "Zmax", "HI0", "dHI0", "Tbase", "Tupp", "WP", "WPy", "YldWC", "fCO2", "Maturity",
                   "MaturityCD", "CC0", "Kcb"):
            out[nm] = to_num(getattr(c, nm))
        out["cropType"] = int(c.CropType)
        out["gddMethod"] = int(c.GDDmethod)
        out["etAdj"] = int(c.ETadj)
        return out

    def _expected_fco2(self, s):
        """CO2 factor of season s as the INITIALISATION path computes it for a fresh model started on that season's planting date (independent of the
        season-start path under test).  None when not applicable: no scenario dictionary, or a concentration held constant for the whole run."""
        sc = self.scenario
        if not sc or (sc.get("co2") or {}).get("constant_conc"):
            return None
        try:
            import copy as _copy
            import scenario as _S
            cs = self.model._clock_struct
            b = _copy.deepcopy(sc)
            for k in [k for k in b if k.startswith("_")]:
                b.pop(k)
            pdate = pd.Timestamp(cs.planting_dates[s])
            hdate = pd.Timestamp(cs.harvest_dates[s])
            b["start"] = pdate.strftime("%Y/%m/%d")
            b["end"] = min(pd.Timestamp(cs.simulation_end_date), hdate + pd.Timedelta(days=2)).strftime("%Y/%m/%d")
            m2 = _S.make_model(b)
            m2._initialize()
            return float(m2._param_struct.Seasonal_Crop_List[0].fCO2)
        except BaseException:  # noqa  (a window the fresh model rejects: no oracle for this season)
            return None

    def _depth_on(self, tsc):
        d = float(((self.scenario.get("irr") or {}).get("kw") or {}).get("depth", 0.0))
        for frm, dep in self._depth_plan:
            if tsc >= int(frm):
                d = float(dep)
        return d

    def param_hash(self):
        m = self.model
        ps = m._param_struct
        prof = ps.Soil.Profile
        h = {}
        h["geom"] = digest([np.asarray(getattr(prof, n)) for n in ("dz", "dzsum", "zBot", "z_top", "zMid", "Comp", "Layer")])
        h["hyd"] = digest([np.asarray(getattr(prof, n)) for n in ("th_wp", "th_fc", "th_s", "th_dry", "Ksat", "Penetrability", "tau", "aCR", "bCR")])
        soil = ps.Soil
        h["soil"] = digest({k: v for k, v in vars(soil).items() if k not in ("profile", "Profile", "Hydrology")})
        h["soildf"] = digest(soil.profile)
        # (with a depth plan the caller sets IrrMngt.depth between calls - the documented use of strategy 5 -: that field is the caller's)
        h["irr"] = obj_digest(ps.IrrMngt, skip=("depth",) if self._depth_plan else ())
        h["fallowirr"] = obj_digest(ps.FallowIrrMngt)
        h["field"] = obj_digest(ps.FieldMngt)
        h["fallow"] = obj_digest(ps.FallowFieldMngt)
        h["gw"] = digest([np.asarray(ps.z_gw, dtype=float), int(ps.water_table)])
        w = m._weather
        h["weather"] = digest([np.asarray(w[:, i], dtype=float) for i in range(4)] + [[str(x) for x in w[:, 4]]])
        h["clockdates"] = digest([[str(x) for x in m._clock_struct.planting_dates], [str(x) for x in m._clock_struct.harvest_dates],
                                  str(m._clock_struct.simulation_start_date), str(m._clock_struct.simulation_end_date),
                                  int(m._clock_struct.n_seasons), len(m._clock_struct.time_span)])
        crops = []
        for c in ps.Seasonal_Crop_List:
            crops.append(obj_digest(c))
        h["crops"] = crops
        return h

    RESET_FIELDS = ["age_days", "age_days_ns", "aer_days", "irr_cum", "delayed_gdds", "delayed_cds", "pct_lag_phase", "t_early_sen", "gdd_cum",
                    "day_submerged", "irr_net_cum", "dap", "e_pot", "t_pot", "pre_adj", "crop_mature", "crop_dead", "germination", "premat_senes",
                    "harvest_flag", "stage", "f_pre", "f_post", "fpost_dwn", "fpost_upp", "h1_cor_asum", "h1_cor_bsum", "f_pol", "s_cor1", "s_cor2",
                    "growth_stage", "tr_ratio", "r_cor", "canopy_cover", "canopy_cover_adj", "canopy_cover_ns", "canopy_cover_adj_ns", "biomass",
                    "biomass_ns", "harvest_index", "harvest_index_adj", "ccx_act", "ccx_act_ns", "ccx_w", "ccx_w_ns", "ccx_early_sen", "cc_prev",
                    "protected_seed", "sumET0EarlySen", "HIfinal", "DryYield", "FreshYield", "aer_days_comp"]

    def _icstate(self):
        """the state fields that a season start must bring back to their initial values (as text: exact comparison)"""
        ic = self.model._init_cond
        out = {}
        for f in self.RESET_FIELDS:
            v = getattr(ic, f, None)
            if isinstance(v, np.ndarray):
                out[f] = digest(v.astype(float))
            elif isinstance(v, (bool, np.bool_)):
                out[f] = "T" if bool(v) else "F"
            elif v is None:
                out[f] = "None"
            else:
                try:
                    out[f] = hexf(float(v))
                except Exception:
                    out[f] = repr(v)
        return out

    def _clock(self):
        c = self.model._clock_struct
        ic = self.model._init_cond
        return {"tsc": int(c.time_step_counter), "season": int(c.season_counter), "finished": bool(c.model_is_finished),
                "dap": int(ic.dap), "mature": bool(ic.crop_mature),
                "dead": bool(ic.crop_dead), "harvested": bool(ic.harvest_flag),
                "nStats": int(len(self.model._outputs.final_stats))}

    def _constants(self):
        m = self.model
        ps = m._param_struct
        cs = m._clock_struct
        prof = ps.Soil.Profile
        dz = np.array(prof.dz, dtype=float)
        self._dz = dz.copy()
        mm = dz * 1000.0
        dzcm = [int(round(x * 100)) for x in dz]
        bot = np.cumsum(dzcm)
        zmid_true = [(b - d / 2.0) / 100.0 for b, d in zip(bot, dzcm)]
        irr = ps.IrrMngt
        cfg = {
            "N": int(len(dz)), "dzcm": dzcm,
            "dzmm": vec(mm),
            "Wdry": vec(prof.th_dry * mm), "Wwp": vec(prof.th_wp * mm), "Wfc": vec(prof.th_fc * mm),
            "Wsat": vec(prof.th_s * mm), "ksat": vec(prof.Ksat), "layer": [int(x) for x in prof.Layer],
            "zmid": vec(zmid_true), "zmidProf": vec(prof.zMid), "zbot": vec([b / 100.0 for b in bot]),
            "thfc": vec(prof.th_fc), "ths": vec(prof.th_s), "thwp": vec(prof.th_wp), "thdry": vec(prof.th_dry),
            "startDay": ordinal(cs.simulation_start_date), "endDay": ordinal(cs.simulation_end_date),
            "nSteps": int(len(cs.time_span)),
            "plant": [ordinal(d) for d in cs.planting_dates], "harv": [ordinal(d) for d in cs.harvest_dates],
            "nSeasons": int(cs.n_seasons), "offSeason": bool(cs.sim_off_season),
            "method": int(irr.irrigation_method), "appEff": to_num(irr.AppEff), "maxIrr": to_num(irr.MaxIrr),
            "maxSeason": to_num(irr.MaxIrrSeason), "interval": int(irr.IrrInterval), "depth": to_num(irr.depth),
            "smt": vec(np.asarray(irr.SMT, dtype=float)), "netSmt": to_num(irr.NetIrrSMT), "wetSurf": to_num(irr.WetSurf),
            "wt": int(ps.water_table), "wtMethod": str(ps.WTMethod),
            "zcn": to_num(ps.Soil.z_cn), "cn": to_num(ps.Soil.cn), "adjCn": int(ps.Soil.adj_cn),
            "ztop": to_num(ps.Soil.z_top),
            "thick": vec(dz), "crSlack": vec(mm * 5e-5),
        }
        self._last_fc = np.asarray(m._init_cond.th_fc_Adj, dtype=float).tobytes()
        sc = self.scenario or {}
        cr = ps.CropList[0] if getattr(ps, "CropList", None) else m.crop      # the crop the model works with (default harvest date filled in)
        def _md(sv):
            a, b = str(sv).split("/")
            return [int(a), int(b)]
        try:
            sd, ed = pd.Timestamp(cs.simulation_start_date), pd.Timestamp(cs.simulation_end_date)
            given = (sc.get("crop") or {}).get("harvest_date")
            cfg["ymd"] = {"start": [sd.year, sd.month, sd.day], "end": [ed.year, ed.month, ed.day],
                          "plant": _md(cr.planting_date), "harv": _md(cr.harvest_date),
                          "harvGiven": _md(given) if given else [], "maturityCD": int(cr.MaturityCD)}
        except Exception:
            pass
        for nm, fm in (("field", ps.FieldMngt), ("fallow", ps.FallowFieldMngt)):
            cfg[nm] = {"bunds": bool(fm.bunds), "zBund": to_num(fm.z_bund), "bundWater": to_num(fm.bund_water),
                       "srInhb": bool(fm.sr_inhb), "mulches": bool(fm.mulches), "cnAdj": bool(fm.curve_number_adj),
                       "cnAdjPct": to_num(fm.curve_number_adj_pct),
                       "effBunds": bool(fm.bunds) and float(fm.z_bund) > 0.001}
        # what the USER specified (scenario dictionary, not the structures the code built from it) next to what the code works with, in the
        # same encoding: Init.config demands agreement on every explicitly specified management setting
        def _enc(v):
            if isinstance(v, bool):
                return bool(v)
            if isinstance(v, (list, tuple, np.ndarray)):
                return vec(np.asarray(v, dtype=float))
            if isinstance(v, (int, float, np.integer, np.floating)):
                return to_num(float(v))
            return str(v)
        user = {"irr": {}, "field": {}, "fallow": {}}
        built = {"irr": {}, "field": {}, "fallow": {}}
        uirr = sc.get("irr") or {}
        if uirr:
            user["irr"]["irrigation_method"] = _enc(int(uirr.get("method", 0)))
            built["irr"]["irrigation_method"] = _enc(int(irr.irrigation_method))
            for k, v in (uirr.get("kw") or {}).items():
                if k in ("Schedule",) or not hasattr(irr, k):
                    continue
                user["irr"][k] = _enc(v)
                built["irr"][k] = _enc(getattr(irr, k))
        for nm, fm in (("field", ps.FieldMngt), ("fallow", ps.FallowFieldMngt)):
            for k, v in (sc.get(nm) or {}).items():
                if not hasattr(fm, k):
                    continue
                user[nm][k] = _enc(float(v) * 1000.0 if k == "z_bund" else v)
                built[nm][k] = _enc(getattr(fm, k))
        # crop parameters overridden by the user (those the specification reads)
        user["crop"], built["crop"] = {}, {}
        c0 = self._season_crop(0 if cs.n_seasons > 0 else -1) if cs.n_seasons > 0 else {}
        for k, v in ((sc.get("crop") or {}).get("kw") or {}).items():
            if k in c0 and isinstance(v, (int, float)) and not isinstance(v, bool) and isinstance(c0[k], list):
                user["crop"][k] = to_num(float(v))
                built["crop"][k] = c0[k]
        cfg["user"] = user
        cfg["built"] = built
        cfg["depthPlan"] = [{"from": int(a), "depth": to_num(float(b))} for a, b in self._depth_plan]
        # user's schedule (by date) for the by-date clause of C13
        sch = []
        um = m.irrigation_management
        if int(getattr(um, "irrigation_method", 0)) == 3 and self.scenario is not None:
            for r in (self.scenario.get("irr", {}) or {}).get("schedule", []) or []:
                sch.append({"day": ordinal(pd.to_datetime(r[0])), "depth": to_num(r[1])})
        cfg["schedule"] = sch
        gw = []
        if self.scenario is not None and (self.scenario.get("gw") or {}).get("water_table") == "Y":
            g = self.scenario["gw"]
            for d, v in zip(g["dates"], g["values"]):
                gw.append({"day": ordinal(pd.to_datetime(d)), "depth": to_num(v)})
        gw.sort(key=lambda o: o["day"])
        cfg["gwObs"] = gw
        cfg["thini"] = vec(np.asarray(m._init_cond.thini, dtype=float) * mm)
        cfg["crop0"] = self._season_crop(0 if cs.n_seasons > 0 else -1)
        return cfg

    # ------------------------------------------------------------------ driving
    def initialize(self):
        os.environ[GUARD] = "1"
        try:
            self.model._initialize()
        except BaseException as exc:  # noqa
            self.events.append({"e": "Reject", "phase": "init", "type": type(exc).__name__,
                                "msg": str(exc)[:300]})
            self.outcome = {"status": "rejected", "phase": "init", "type": type(exc).__name__, "msg": str(exc)[:300]}
            return False
        self.cfg = self._constants()
        ic = self.model._init_cond
        ev = {"e": "Initialize", "clock": self._clock(), "phash": self.param_hash(),
              "date": ordinal(self.model._clock_struct.step_start_time),
              "aliasThini": bool(ic.th is ic.thini), "ic": self._icstate()}
        self._wp(ev, th=ic.th, pond=ic.surface_storage)
        self.events.append(ev)
        return True

    def step(self):
        """one run_model(num_steps=1, initialize_model=False) call, fully traced; returns False when the run is over"""
        m = self.model
        cs = m._clock_struct
        ic = m._init_cond
        if cs.model_is_finished:
            return False
        tsc = int(cs.time_step_counter)
        if self._depth_plan:
            # constant-depth strategy with the depth specified from outside before each call ("usually specified outside of model")
            m._param_struct.IrrMngt.depth = float(self._depth_on(tsc))
        wrow = m._weather[tsc]
        pre = self._clock()
        ev = {"e": "DayBegin", "tsc": tsc, "date": ordinal(cs.step_start_time), "season": int(cs.season_counter),
              "P": to_num(wrow[2]), "ET0": to_num(wrow[3]), "Tmin": to_num(wrow[0]), "Tmax": to_num(wrow[1]),
              "wxDate": ordinal(wrow[4]),
              **({"wxRef": vec(self._wxref[ordinal(cs.step_start_time)])} if ordinal(cs.step_start_time) in self._wxref else {}),
              "dapPrev": pre["dap"], "mature": pre["mature"], "dead": pre["dead"], "harvested": pre["harvested"],
              "irrCumPrev": to_num(ic.irr_cum), "irrNetCumPrev": to_num(ic.irr_net_cum), "gddCumPrev": to_num(ic.gdd_cum),
              "zrootPrev": to_num(ic.z_root), "hiPrev": to_num(ic.harvest_index), "hiAdjPrev": to_num(ic.harvest_index_adj),
              "bPrev": to_num(ic.biomass), "bnsPrev": to_num(ic.biomass_ns), "nStats": pre["nStats"]}
        if self.level != "clock":
            self._wp(ev, th=ic.th, pond=ic.surface_storage)
        self.events.append(ev)
        self._reset_called = False
        self._in_stage = False
        self._patch()
        try:
            try:
                m.run_model(num_steps=1, initialize_model=False)
            finally:
                self._unpatch()
        except BaseException as exc:  # noqa
            # "driver": the exception was raised outside every stage function, i.e. in the time stepping itself (clock update, termination test,
            # reading the day's weather row, writing the output rows)
            self.events.append({"e": "Crash", "phase": "step", "tsc": tsc, "stage": self._cur_stage, "driver": not self._in_stage,
                                "type": type(exc).__name__, "msg": str(exc)[:300]})
            self.outcome = {"status": "crashed", "phase": "step", "tsc": tsc, "stage": self._cur_stage,
                            "type": type(exc).__name__, "msg": str(exc)[:300]}
            return False
        # rows written for this day
        out = m._outputs
        flux = np.asarray(out.water_flux.iloc[tsc] if hasattr(out.water_flux, "iloc") else out.water_flux[tsc], dtype=float)
        growth = np.asarray(out.crop_growth.iloc[tsc] if hasattr(out.crop_growth, "iloc") else out.crop_growth[tsc], dtype=float)
        stor = np.asarray(out.water_storage.iloc[tsc] if hasattr(out.water_storage, "iloc") else out.water_storage[tsc], dtype=float)
        ic = m._init_cond
        cs = m._clock_struct
        d = {"e": "DayEnd", "tsc": tsc, "gs": bool(stor[1] != 0.0),
             "flux": {c: to_num(v) for c, v in zip(FLUX_COLS, flux)},
             "growth": {c: to_num(v) for c, v in zip(GROWTH_COLS, growth)},
             "storRow": {"tsc": to_num(stor[0]), "gs": to_num(stor[1]), "dap": to_num(stor[2])},
             "storW": vec(stor[3:] * self._dz * 1000.0) if len(stor[3:]) == len(self._dz) else [],
             "rowhex": {"flux": [hexf(v) for v in flux], "growth": [hexf(v) for v in growth], "stor": [hexf(v) for v in stor]},
             "nStats": int(len(out.final_stats)),
             "yhex": [hexf(growth[12]), hexf(growth[13]), hexf(growth[14])],
             "irrCum": to_num(ic.irr_cum), "irrNetCum": to_num(ic.irr_net_cum)}
        if not self.rowhex:
            del d["rowhex"]
        if self._reset_called:
            # flags below are post-reset; the pre-reset flags are not observable any more except through the summary
            d["postReset"] = True
        def _sv(v):          # by value: the table's column types may change when a row is appended (int -> float -> object)
            if isinstance(v, (bool, np.bool_)):
                return str(bool(v))
            if isinstance(v, (int, float, np.integer, np.floating)):
                return hexf(float(v))
            if hasattr(v, "toordinal"):
                return str(v.toordinal())
            return str(v)
        d["statKeys"] = [digest("|".join(_sv(v) for v in out.final_stats.iloc[j].tolist())) for j in range(len(out.final_stats))]
        if len(out.final_stats) > 0:
            last = out.final_stats.iloc[-1]
            d["lastStat"] = {"season": int(last.iloc[0]), "harvDate": ordinal(last.iloc[2]), "step": int(last.iloc[3]),
                             "dry": to_num(last.iloc[4]), "fresh": to_num(last.iloc[5]), "ypot": to_num(last.iloc[6]),
                             "irr": to_num(last.iloc[7]),
                             "hex": [hexf(last.iloc[4]), hexf(last.iloc[5]), hexf(last.iloc[6]), hexf(last.iloc[7])]}
        self.events.append(d)
        adv = {"e": "Advance", "clock": self._clock(), "reset": bool(self._reset_called), "phash": self.param_hash(),
               "date": ordinal(cs.step_start_time),
               "aliasThini": bool(ic.th is ic.thini), "visible": m.get_simulation_results() is not False}
        if self._reset_called:
            s = int(cs.season_counter)
            adv["crop"] = self._season_crop(s)
            exp = self._expected_fco2(s)
            if exp is not None:
                adv["expFco2"] = to_num(exp)
            adv["irrCum"] = to_num(ic.irr_cum)
            adv["irrNetCum"] = to_num(ic.irr_net_cum)
            adv["gddCum"] = to_num(ic.gdd_cum)
            adv["zroot"] = to_num(ic.z_root)
            adv["ic"] = self._icstate()
        if self.level != "clock":
            self._wp(adv, th=ic.th, pond=ic.surface_storage)
        self.events.append(adv)
        return not cs.model_is_finished

    def run(self, max_steps=None):
        if not self.initialize():
            return self.doc()
        n = 0
        while self.step():
            n += 1
            if max_steps is not None and n >= max_steps:
                break
        if self.outcome is None:
            self.outcome = {"status": "completed" if self.model._clock_struct.model_is_finished else "stopped", "steps": n + 1}
        return self.doc()

    def doc(self):
        return {"cfg": self.cfg, "events": self.events, "outcome": self.outcome, "scenario": self.scenario}


def trace_scenario(sc, level="full", max_steps=None, rowhex=False):
    import scenario as S
    try:
        if sc.get("_prelude"):
            # ANOTHER model (the listed keys overridden - typically another window) is built from the very same user objects and run first;
            # the traced model is then built from those used objects (call-history dimension: shared objects across models)
            model, _ = S.make_model_after_prelude(sc)
        else:
            model = S.make_model(sc)
    except BaseException as exc:  # constructor-level rejection
        return {"cfg": None, "events": [{"e": "Reject", "phase": "construct", "type": type(exc).__name__, "msg": str(exc)[:300]}],
                "outcome": {"status": "rejected", "phase": "construct", "type": type(exc).__name__, "msg": str(exc)[:300]},
                "scenario": sc}
    tr = Tracer(model, scenario=sc, level=level, rowhex=rowhex)
    return tr.run(max_steps=max_steps)
