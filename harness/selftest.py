#!/venv/bin/python
"""Binding demonstration (DESIGN 3.3): the trace specification must REJECT corrupted traces and a seeded
implementation fault, clause by clause.  Exit 0 when every corruption is reported with the expected clause,
exit 2 otherwise (a clause that no corruption can trigger is vacuous)."""
import copy
import json
import os
import sys
import warnings

warnings.filterwarnings("ignore")
sys.path.insert(0, os.path.dirname(os.path.abspath(__file__)))
os.environ["AQUACROP_VERIF"] = "1"

import common as C
import equiv as E
import scenlib as L
import tlc
import tracer as T
from num import from_num, to_num


def find(doc, name, pred=lambda e: True, nth=0):
    k = 0
    for i, e in enumerate(doc["events"]):
        if e["e"] == name and pred(e):
            if k == nth:
                return i
            k += 1
    raise LookupError(name)


def bump(doc, i, path, delta):
    e = doc["events"][i]
    for p in path[:-1]:
        e = e[p]
    e[path[-1]] = to_num(from_num(e[path[-1]]) + delta)


def main():
    sc = L.scenario("Tomato", "SandyLoam", seed=11, irr={"method": 2, "kw": {"IrrInterval": 7, "AppEff": 80}}, seasons=2,
                    gw={"water_table": "Y", "dates": ["2001/04/20"], "values": [1.6]})
    base = T.trace_scenario(sc)
    assert base["outcome"]["status"] == "completed", base["outcome"]
    cases = []

    def case(name, expect, mut):
        d = copy.deepcopy(base)
        mut(d)
        cases.append((name, expect, d))

    case("unchanged trace", None, lambda d: None)
    case("flux row: deep percolation +0.01 mm", ("DayEnd.closure", "closure"), lambda d: bump(d, find(d, "DayEnd", nth=30), ["flux", "DeepPerc"], 0.01))
    case("flux row: runoff +0.5 mm", ("DayEnd.partition", "partition"), lambda d: bump(d, find(d, "DayEnd", nth=31), ["flux", "Runoff"], 0.5))
    case("flux row: Es above EsPot", ("DayEnd.signs", "esLePot"), lambda d: d["events"][find(d, "DayEnd", nth=50)]["flux"].__setitem__("Es", to_num(from_num(d["events"][find(d, "DayEnd", nth=50)]["flux"]["EsPot"]) + 0.002)))
    case("growth row: days after planting +1", ("DayEnd.rows", "dapRows"), lambda d: bump(d, find(d, "DayEnd", nth=40), ["growth", "dap"], 1))
    case("growth row: canopy above CCx", ("DayEnd.envelope", "ccRange"), lambda d: d["events"][find(d, "DayEnd", nth=100)]["growth"].__setitem__("canopy_cover", to_num(0.99)))
    case("growth row: dry yield +0.01", ("DayEnd.yield", "dryYield"), lambda d: bump(d, find(d, "DayEnd", nth=120), ["growth", "DryYield"], 0.01))
    case("drain stage: dp +0.5 mm", ("Drain", "closure"), lambda d: bump(d, find(d, "Drain", lambda e: from_num(e["dp"]) > 0), ["dp"], 0.5))
    case("irrigation decision: +1 mm", ("Irrigate", "decision"), lambda d: bump(d, find(d, "Irrigate", lambda e: from_num(e["irr"]) > 0), ["irr"], 1.0))
    case("clock: step counter +1 after an advance", ("Advance.clock", "tsc"), lambda d: d["events"][find(d, "Advance", nth=60)]["clock"].__setitem__("tsc", d["events"][find(d, "Advance", nth=60)]["clock"]["tsc"] + 1))
    case("parameter digest: profile geometry", ("Params", "geometry"), lambda d: d["events"][find(d, "Advance", nth=70)]["phash"].__setitem__("geom", "deadbeef"))
    case("weather row of another date", ("DayBegin.weather", "byDate"), lambda d: d["events"][find(d, "DayBegin", nth=20)].__setitem__("wxDate", d["events"][find(d, "DayBegin", nth=20)]["wxDate"] + 1))
    case("water-table depth off the series", ("CheckGW", "series"), lambda d: bump(d, find(d, "CheckGW", nth=33), ["zgw"], 0.2))
    case("dropped Evaporate event (its water change then shows up in the next stage)", ("Transpire", "closure"), lambda d: d["events"].pop(find(d, "Evaporate", lambda e: "W" in e, nth=10)))
    case("summary row: harvest step +1", ("DayEnd.summary", "step"), lambda d: d["events"][find(d, "DayEnd", lambda e: "lastStat" in e)]["lastStat"].__setitem__("step", d["events"][find(d, "DayEnd", lambda e: "lastStat" in e)]["lastStat"]["step"] + 1))

    case("infiltration applies another efficiency than the configured one", ("Infiltrate", "effOfConfig"),
         lambda d: d["events"][find(d, "Infiltrate", lambda e: from_num(e["irr"]) > 0)].__setitem__("appEff", to_num(55.0)))
    case("summary row rewritten after its harvest day", ("DayEnd.summary", "frozen"),
         lambda d: d["events"][find(d, "DayEnd", lambda e: len(e.get("statKeys", [])) == 2)]["statKeys"].__setitem__(0, "00ff"))
    case("irrigation decision reads other thresholds than the configured ones", ("Irrigate", "cfgMethod"),
         lambda d: d["events"][find(d, "Irrigate", lambda e: e["gs"], nth=5)].__setitem__("maxIrr", to_num(3.0)))

    case("weather value used on a day differs from the user's record of that date", ("DayBegin.weather", "byValue"),
         lambda d: d["events"][find(d, "DayBegin", nth=25)].__setitem__("Tmax", to_num(from_num(d["events"][find(d, "DayBegin", nth=25)]["Tmax"]) + 0.5)))
    case("irrigation decision based on another depletion estimate than the state implies", ("Irrigate", "estimate"),
         lambda d: bump(d, find(d, "Irrigate", lambda e: e["gs"] and "deplExp" in e, nth=7), ["deplExp"], 3.0))
    case("initialisation stored another application efficiency than the user's", ("Init.config", "irr"),
         lambda d: d["cfg"]["built"]["irr"].__setitem__("AppEff", to_num(55.0)))

    # seeded IMPLEMENTATION fault (not a trace edit): drainage silently loses 1 mm from the top compartment
    import aquacrop.timestep.run_single_timestep as rst
    orig = rst.drainage

    def leaky(prof, th, fc):
        thn, dp, flux = orig(prof, th, fc)
        thn[0] = max(thn[0] - 1.0 / (1000 * prof.dz[0]), prof.th_dry[0])
        return thn, dp, flux
    rst.drainage = leaky
    try:
        leak = T.trace_scenario(sc, max_steps=40)
    finally:
        rst.drainage = orig
    cases.append(("implementation fault: drainage leaks 1 mm/day", ("DayEnd.closure", "closure"), leak))

    results, st = tlc.validate_traces([c[2] for c in cases])
    bad = 0
    for (name, expect, _), viol in zip(cases, results):
        keys = {(v[1], v[2]) for v in viol}
        if expect is None:
            ok = not keys
        else:
            ok = expect in keys
        print(("ok   " if ok else "FAIL ") + name + ("  -> " + ", ".join(sorted(f"{a}.{b}" for a, b in keys))[:200] if keys else "  -> accepted"))
        bad += 0 if ok else 1
    # Equiv binding: one corrupted row digest must be reported
    r = E.exec_job({"kind": "plain", "scenario": L.scenario("Tef", "Loam", seed=3)})
    t2 = copy.deepcopy(r["tables"])
    t2["rows"][30]["g"] = "0000"
    v, _ = tlc.validate_pairs([E.pair_doc("identity", r["tables"], r["tables"]), E.pair_doc("identity", r["tables"], t2)])
    ok = v[0]["ok"] and (not v[1]["ok"]) and v[1]["groups"] == ["g"]
    print(("ok   " if ok else "FAIL ") + "Equiv: identical pair accepted, one corrupted growth-row digest reported")
    bad += 0 if ok else 1
    # AquaSeasons (C08 as a two-run model): leaving ONE field out of the season-start reset must make TLC find a weather sequence that
    # tells season K of the multi-season run from the fresh run (the invariant Independent is not vacuous)
    for fld in ("dem", "cnt", "pond", "cum"):
        r = tlc.run_mc("AquaSeasons.tla", f"MC_Seasons_neg_{fld}.cfg", workers=4, timeout=300)
        ok = "Independent" in r["violated"]
        print(("ok   " if ok else "FAIL ") + f"AquaSeasons: reset without '{fld}' -> " + (", ".join(r["violated"]) or "no violation found"))
        bad += 0 if ok else 1
    print("selftest:", "passed" if not bad else f"{bad} failure(s)")
    sys.exit(0 if not bad else 2)


if __name__ == "__main__":
    main()
