"""Shared machinery of the checks: parallel traced runs, verdict bookkeeping, known findings, evidence."""
import hashlib
import json
import multiprocessing as mp
import os
import signal
import sys
import time
import traceback
import warnings

ROOT = os.path.dirname(os.path.dirname(os.path.abspath(__file__)))
EVID = os.path.join(ROOT, "evidence")
REPLAYS = os.path.join(ROOT, "replays")
KNOWN = os.path.join(ROOT, "known_findings.json")
JOBS = int(os.environ.get("VERIF_JOBS", "14"))


class RunTimeout(Exception):
    pass


def _alarm(signum, frame):
    raise RunTimeout()


def _worker(args):
    sc, level, max_steps, rowhex, tmo = args
    warnings.filterwarnings("ignore")
    sys.path.insert(0, os.path.join(ROOT, "harness"))
    import tracer as T
    signal.signal(signal.SIGALRM, _alarm)
    signal.setitimer(signal.ITIMER_REAL, tmo)
    t0 = time.time()
    try:
        doc = T.trace_scenario(sc, level=level, max_steps=max_steps, rowhex=rowhex)
    except RunTimeout:
        doc = {"cfg": None, "events": [{"e": "Crash", "phase": "timeout", "tsc": -1, "stage": "?", "type": "NonTermination",
                                        "msg": f"no result within {tmo} s"}],
               "outcome": {"status": "timeout", "type": "NonTermination", "msg": f"no result within {tmo} s"}, "scenario": sc}
    except BaseException as exc:  # harness failure: keep it visible
        doc = {"cfg": None, "events": [], "outcome": {"status": "harness_error", "type": type(exc).__name__,
                                                      "msg": str(exc)[:300], "tb": traceback.format_exc()[-2000:]}, "scenario": sc}
    finally:
        signal.setitimer(signal.ITIMER_REAL, 0)
    doc["wall_s"] = round(time.time() - t0, 3)
    return doc


def run_traced(scenarios, level="full", max_steps=None, rowhex=False, timeout=120, jobs=None):
    """Run every scenario in a fresh worker process (maxtasksperchild=1 keeps instances isolated)."""
    jobs = jobs or JOBS
    ctx = mp.get_context("fork")
    args = [(sc, level, max_steps, rowhex, timeout) for sc in scenarios]
    if not args:
        return []
    with ctx.Pool(processes=min(jobs, len(args)), maxtasksperchild=4) as pool:
        docs = pool.map(_worker, args, chunksize=1)
    return docs


def pmap(fn, items, jobs=None, chunksize=1):
    jobs = jobs or JOBS
    ctx = mp.get_context("fork")
    if not items:
        return []
    with ctx.Pool(processes=min(jobs, len(items)), maxtasksperchild=8) as pool:
        return pool.map(fn, items, chunksize=chunksize)


# ----------------------------------------------------------------------------------------------
def sc_id(sc):
    return hashlib.blake2b(json.dumps(sc, sort_keys=True, default=str).encode(), digest_size=6).hexdigest()


def features(sc):
    """Signature of a scenario used to key known findings (the specific input class that fails)."""
    soil = sc.get("soil", {}) or {}
    layers = soil.get("layers", []) or []
    f = {
        "crop": (sc.get("crop") or {}).get("name"),
        "soil": soil.get("type", "SandyLoam"),
        "restrictive_layer": any(len(l) >= 6 and float(l[5]) < 100 for l in layers) or
                             any(len(l) >= 5 and float(l[4]) < 100 for l in (soil.get("texture_layers") or [])),
        "method": int((sc.get("irr") or {}).get("method", 0)),
        "off_season": bool(sc.get("off_season", False)),
        "water_table": (sc.get("gw") or {}).get("water_table", "N") == "Y",
        "harvest_given": (sc.get("crop") or {}).get("harvest_date") is not None,
        "bunds": bool((sc.get("field") or {}).get("bunds", False)),
        "crop_kw": sorted(((sc.get("crop") or {}).get("kw") or {}).keys()),
    }
    # is the soil profile deepened to accommodate the crop's maximum rooting depth?
    try:
        from aquacrop.entities.crops.crop_params import crop_params
        zmax = float(((sc.get("crop") or {}).get("kw") or {}).get("Zmax", crop_params.get(f["crop"], {}).get("Zmax", 0) or 0))
        dz = (soil.get("kw") or {}).get("dz")
        if f["soil"] == "ac_TunisLocal":
            tot = 1.55
        else:
            tot = sum(dz) if dz else 1.2
        f["deepened"] = bool(round(tot, 2) < zmax + 0.1)      # the implementation's own (floating-point) loop test
    except Exception:
        f["deepened"] = None
    try:
        dzl = (soil.get("kw") or {}).get("dz")
        import scenlib as _L
        f["undeepenable"] = not _L.deepenable(sc)
    except Exception:
        f["undeepenable"] = None
    try:
        import datetime as _dt
        import pandas as _pd
        s0, e0 = _pd.to_datetime(sc["start"]).date(), _pd.to_datetime(sc["end"]).date()
        pm = (sc.get("crop") or {}).get("planting_date", "01/01").split("/")
        f["leap_day_date"] = any(str(x).endswith("02/29") or str(x).endswith("2/29") for x in (sc["start"], sc["end"], "/".join(pm), (sc.get("crop") or {}).get("harvest_date") or ""))
        has = False
        for y in range(s0.year, e0.year + 1):
            try:
                d = _dt.date(y, int(pm[0]), int(pm[1]))
            except ValueError:
                continue
            if s0 <= d < e0:
                has = True
        f["no_season_in_window"] = not has
    except Exception:
        f["leap_day_date"] = None
        f["no_season_in_window"] = None
    gw = sc.get("gw") or {}
    f["gw_variable"] = gw.get("method") == "Variable" and len(gw.get("dates", [])) > 1
    try:
        import pandas as pd
        ds = [pd.to_datetime(d) for d in gw.get("dates", [])]
        f["gw_obs_outside_window"] = bool(ds) and (min(ds) < pd.to_datetime(sc["start"]) or max(ds) > pd.to_datetime(sc["end"]))
    except Exception:
        f["gw_obs_outside_window"] = None
    return f


def load_known():
    if not os.path.exists(KNOWN):
        return {"findings": [], "fixed": []}
    return json.load(open(KNOWN))


def match_known(known, prop, key, feat, detail=None):
    """key: 'stage.clause' (trace violations) or a symbolic key for other checks."""
    for k in known.get("findings", []):
        if k["property"] != prop:
            continue
        if k.get("keys") is not None and key not in k["keys"]:
            continue
        ok = True
        for fk, fv in (k.get("when") or {}).items():
            v = feat.get(fk)
            if isinstance(fv, list):
                if v not in fv:
                    ok = False
            elif v != fv:
                ok = False
        if ok and k.get("detail_contains") and (detail is None or k["detail_contains"] not in str(detail)):
            ok = False
        if ok:
            return k
    return None


DOCUMENTED = [("AssertionError", "not enough growing degree days"), ("AssertionError", "crop will take longer than 1 year"),
              ("ValueError", "sim_start_time format must be"), ("ValueError", "sim_end_time format must be"),
              ("ValueError", "The first date of the climate data cannot be longer"),
              ("ValueError", "The model end date cannot be longer than the last date of climate data"),
              ("ValueError", "Simulation period must be less than 580 years")]


def documented_rejection(err):
    """the rejections C16 permits (raised at construction, initialisation or at the start of a season)"""
    if not err:
        return False
    for t, m in DOCUMENTED:
        if err.get("type") == t and m in (err.get("msg") or ""):
            return True
    return False


class Verdicts:
    """Collects violations of ONE property, separates known findings, writes replay files."""

    def __init__(self, prop):
        self.prop = prop
        self.known = load_known()
        self.new = []          # (key, replay path)
        self.known_hits = {}   # finding id -> count
        self.fidelity = {}     # 'stage.clause' -> count (spec/implementation mismatches without property id)
        self.other_props = {}  # violations of other properties seen on this property's runs (informational)
        os.makedirs(os.path.join(REPLAYS, prop), exist_ok=True)

    def add(self, key, scenario, detail, extra=None):
        feat = features(scenario) if scenario else {}
        k = match_known(self.known, self.prop, key, feat, detail)
        if k is not None:
            self.known_hits[k["id"]] = self.known_hits.get(k["id"], 0) + 1
            return False
        rid = hashlib.blake2b((key + json.dumps(scenario, sort_keys=True, default=str)).encode(), digest_size=5).hexdigest()
        path = os.path.join(REPLAYS, self.prop, f"{key.replace('/', '_')}_{rid}.json")
        with open(path, "w") as fh:
            json.dump({"property": self.prop, "key": key, "scenario": scenario, "detail": detail, "features": feat,
                       "extra": extra}, fh, indent=1, default=str)
        self.new.append((key, path))
        return True

    def add_trace_results(self, docs, results):
        """results[i]: list of [eventIndex, stage, clause, [props]] from TLC for docs[i]."""
        for doc, viol in zip(docs, results):
            seen = set()
            for ev_i, stage, clause, props in sorted(viol):
                key = f"{stage}.{clause}"
                if not props:
                    self.fidelity[key] = self.fidelity.get(key, 0) + 1
                    continue
                if self.prop not in props:
                    for p in props:
                        self.other_props[p] = self.other_props.get(p, 0) + 1
                    continue
                if key in seen:
                    continue          # one report per clause and run
                seen.add(key)
                e = doc["events"][ev_i - 1] if 0 < ev_i <= len(doc["events"]) else None
                ctx = None
                if e is not None:
                    ctx = {k: v for k, v in e.items() if k not in ("phash", "rowhex")}
                self.add(key, doc.get("scenario"), {"event_index": ev_i, "event": ctx})

    def report(self):
        """prints the interface lines; returns exit code"""
        for fid, n in sorted(self.known_hits.items()):
            k = next(x for x in self.known["findings"] if x["id"] == fid)
            print(f"KNOWN-FINDING: property={self.prop} {k['what']} [{fid}; {n} occurrence(s) in this run]")
        for key, path in self.new[:25]:
            print(f"VIOLATION property={self.prop} replay={path}")
        if len(self.new) > 25:
            print(f"... {len(self.new) - 25} further violations of {self.prop} not listed")
        return 1 if self.new else 0


def write_evidence(prop, tier, seed, level, coverage, wall_s, violations, assumptions=None, extra=None):
    os.makedirs(EVID, exist_ok=True)
    ev = {"property_id": prop, "tier": tier, "seed": int(seed), "level": level, "coverage": coverage,
          "assumptions": assumptions or [], "wall_s": round(float(wall_s), 2), "violations": int(violations)}
    if extra:
        ev.update(extra)
    with open(os.path.join(EVID, f"{prop}.json"), "w") as fh:
        json.dump(ev, fh, indent=1, default=str)
    return ev


def tier_seed():
    tier = os.environ.get("VERIF_TIER", "quick")
    if tier not in ("quick", "thorough"):
        tier = "quick"
    try:
        seed = int(os.environ.get("VERIF_SEED", "0"))
    except ValueError:
        seed = 0
    return tier, seed
