"""Scenario descriptions (plain JSON-able dicts) -> AquaCrop-OSPy objects.

Every conformance run of the framework is described by such a dict, so that a violation can be
replayed from the replay file alone.  Only the public API of aquacrop is used here.
"""
import copy
import math
import random
import datetime as _dt

import numpy as np
import pandas as pd

_WEATHER_CACHE = {}


def _aquacrop():
    import aquacrop  # resolved from /repo working tree (editable install)
    return aquacrop


def builtin_weather(name):
    if name not in _WEATHER_CACHE:
        from aquacrop.utils import prepare_weather, get_filepath
        _WEATHER_CACHE[name] = prepare_weather(get_filepath(name))
    return _WEATHER_CACHE[name].copy()


REGIMES = {
    # tmean, tamp (seasonal), diurnal half-range, rain prob, rain mean, et0 mean, et0 amp
    "temperate": dict(tmean=12.0, tamp=9.0, dtr=5.0, pwet=0.35, rmean=6.0, et0=2.8, et0amp=2.0),
    "arid": dict(tmean=22.0, tamp=8.0, dtr=8.0, pwet=0.04, rmean=5.0, et0=6.5, et0amp=3.0),
    "monsoon": dict(tmean=26.0, tamp=4.0, dtr=4.0, pwet=0.55, rmean=22.0, et0=4.5, et0amp=1.0),
    "cold": dict(tmean=6.0, tamp=10.0, dtr=5.0, pwet=0.3, rmean=4.0, et0=1.5, et0amp=1.2),
    "hot": dict(tmean=33.0, tamp=5.0, dtr=8.0, pwet=0.08, rmean=8.0, et0=8.0, et0amp=2.5),
    "wet": dict(tmean=18.0, tamp=6.0, dtr=4.0, pwet=0.7, rmean=18.0, et0=2.5, et0amp=1.0),
    "warm": dict(tmean=22.0, tamp=5.0, dtr=6.0, pwet=0.25, rmean=9.0, et0=4.5, et0amp=1.5),
}


def synth_weather(spec):
    """Deterministic synthetic daily weather (stdlib random only)."""
    rnd = random.Random(int(spec.get("seed", 0)))
    reg = dict(REGIMES[spec.get("regime", "temperate")])
    reg.update(spec.get("params", {}))
    start = pd.to_datetime(spec.get("start", "1999/01/01"))
    days = int(spec.get("days", 1200))
    dates = pd.date_range(start, periods=days, freq="D")
    tmin, tmax, pr, et = [], [], [], []
    yr_amp = float(reg.get("yr_amp", 0.0))       # inter-annual variability: a temperature anomaly per calendar year (own random stream)
    anomaly = {}
    for d in dates:
        doy = d.dayofyear
        season = math.sin(2 * math.pi * (doy - 105) / 365.25)
        if yr_amp and d.year not in anomaly:
            anomaly[d.year] = random.Random(int(spec.get("seed", 0)) * 7919 + d.year).uniform(-yr_amp, yr_amp)
        tm = reg["tmean"] + reg["tamp"] * season + rnd.gauss(0, 2.0) + (anomaly[d.year] if yr_amp else 0.0)
        half = max(0.5, reg["dtr"] + rnd.gauss(0, 1.0))
        tmin.append(round(tm - half, 1))
        tmax.append(round(tm + half, 1))
        if rnd.random() < reg["pwet"]:
            pr.append(round(rnd.expovariate(1.0 / reg["rmean"]), 1))
        else:
            pr.append(0.0)
        e = reg["et0"] + reg["et0amp"] * season + rnd.gauss(0, 0.4)
        et.append(round(max(0.1, e), 1))
    df = pd.DataFrame({"MinTemp": tmin, "MaxTemp": tmax, "Precipitation": pr,
                       "ReferenceET": et, "Date": dates})
    for ev in spec.get("events", []):
        # {"date": "2000/06/01", "P": 300} / {"from":..., "to":..., "P":0, "ET0":..}
        if "date" in ev:
            m = df.Date == pd.to_datetime(ev["date"])
        else:
            m = (df.Date >= pd.to_datetime(ev["from"])) & (df.Date <= pd.to_datetime(ev["to"]))
        for k, col in (("P", "Precipitation"), ("ET0", "ReferenceET"), ("Tmin", "MinTemp"), ("Tmax", "MaxTemp")):
            if k in ev:
                df.loc[m, col] = float(ev[k])
    return df


def make_weather(spec):
    if "file" in spec:
        df = builtin_weather(spec["file"])
        for ev in spec.get("events", []):
            if "date" in ev:
                m = df.Date == pd.to_datetime(ev["date"])
            else:
                m = (df.Date >= pd.to_datetime(ev["from"])) & (df.Date <= pd.to_datetime(ev["to"]))
            for k, col in (("P", "Precipitation"), ("ET0", "ReferenceET"), ("Tmin", "MinTemp"), ("Tmax", "MaxTemp")):
                if k in ev:
                    df.loc[m, col] = float(ev[k])
        return df
    return synth_weather(spec["synth"])


def make_soil(spec):
    ac = _aquacrop()
    kw = dict(spec.get("kw", {}))
    soil = ac.Soil(spec.get("type", "SandyLoam"), **kw)
    for lay in spec.get("layers", []):
        soil.add_layer(*lay)
    for lay in spec.get("texture_layers", []):
        soil.add_layer_from_texture(*lay)
    return soil


def make_crop(spec):
    ac = _aquacrop()
    kw = dict(spec.get("kw", {}))
    if spec.get("_np_kw"):                       # parameters handed over as numpy scalars (a row of an array / a pandas table)
        import numpy as _np
        kw = {k: (_np.int64(v) if isinstance(v, int) and not isinstance(v, bool) else _np.float64(v) if isinstance(v, float) else v) for k, v in kw.items()}
    return ac.Crop(spec["name"], planting_date=spec.get("planting_date", "05/01"),
                   harvest_date=spec.get("harvest_date"), **kw)


def make_irr(spec):
    ac = _aquacrop()
    if spec is None:
        return None
    kw = dict(spec.get("kw", {}))
    if "schedule" in spec and spec["schedule"] is not None:
        rows = spec["schedule"]
        sched = pd.DataFrame({"Date": pd.to_datetime([r[0] for r in rows]) if rows else pd.to_datetime([]),
                              "Depth": [float(r[1]) for r in rows]})
        kw["Schedule"] = sched
    return ac.IrrigationManagement(irrigation_method=int(spec.get("method", 0)), **kw)


def make_field(spec):
    ac = _aquacrop()
    if spec is None:
        return None
    return ac.FieldMngt(**spec)


def make_gw(spec):
    ac = _aquacrop()
    if spec is None:
        return None
    s = dict(spec)
    dtype = s.pop("_date_type", "str")
    if "dates" in s:
        s["dates"] = [pd.to_datetime(d) if not isinstance(d, pd.Timestamp) else d for d in s["dates"]]
        if dtype == "date":          # datetime.date objects
            s["dates"] = [d.date() for d in s["dates"]]
        elif dtype == "np64":        # day-resolution numpy datetimes
            import numpy as _np
            s["dates"] = [_np.datetime64(d.strftime("%Y-%m-%d")) for d in s["dates"]]
        elif dtype == "timestamp":
            pass
        else:
            s["dates"] = [f"{d.year}/{d.month:02d}/{d.day:02d}" for d in s["dates"]]
    return ac.GroundWater(**s)


def make_iwc(spec):
    ac = _aquacrop()
    if spec is None:
        spec = {"value": ["FC"]}
    spec = copy.deepcopy(spec)
    if spec.pop("_as_array", False):           # the values handed over as a float64 numpy array (as read from a file) instead of a list
        import numpy as _np
        spec["value"] = _np.array(spec["value"], dtype=float)
        if all(isinstance(x, (int, float)) for x in spec.get("depth_layer", [])):
            spec["depth_layer"] = _np.array(spec["depth_layer"], dtype=float) if spec.get("method") == "Depth" else spec["depth_layer"]
    return ac.InitialWaterContent(**spec)


def make_co2(spec):
    ac = _aquacrop()
    if spec is None:
        return None
    s = dict(spec)
    if "co2_data" in s and s["co2_data"] is not None:
        s["co2_data"] = pd.DataFrame(s["co2_data"], columns=["year", "ppm"])
    return ac.CO2(**s)


def make_objects(sc):
    """Build all user objects of a scenario (fresh objects every call)."""
    objs = dict(
        weather_df=make_weather(sc["weather"]),
        soil=make_soil(sc.get("soil", {})),
        crop=make_crop(sc["crop"]),
        initial_water_content=make_iwc(sc.get("iwc")),
        irrigation_management=make_irr(sc.get("irr")),
        field_management=make_field(sc.get("field")),
        fallow_field_management=make_field(sc.get("fallow")),
        groundwater=make_gw(sc.get("gw")),
        co2_concentration=make_co2(sc.get("co2")),
    )
    return objs


def make_model(sc, objs=None):
    ac = _aquacrop()
    if objs is None:
        objs = make_objects(sc)
    return ac.AquaCropModel(sim_start_time=sc["start"], sim_end_time=sc["end"],
                            off_season=bool(sc.get("off_season", False)), **objs)


OBJ_KEYS = {"soil": ("soil", lambda sc: make_soil(sc.get("soil", {}))), "crop": ("crop", lambda sc: make_crop(sc["crop"])),
            "irr": ("irrigation_management", lambda sc: make_irr(sc.get("irr"))), "field": ("field_management", lambda sc: make_field(sc.get("field"))),
            "fallow": ("fallow_field_management", lambda sc: make_field(sc.get("fallow"))), "gw": ("groundwater", lambda sc: make_gw(sc.get("gw"))),
            "iwc": ("initial_water_content", lambda sc: make_iwc(sc.get("iwc"))), "co2": ("co2_concentration", lambda sc: make_co2(sc.get("co2")))}


def make_model_after_prelude(sc, objs=None, init_only=False):
    """sc['_prelude'] = {...}: ANOTHER model is built first from the very same user objects (keys of the prelude override the scenario; an overridden
    object key - soil, crop, ... - gets its own object, everything else is SHARED) and run to termination (or only initialised); the model of sc is
    then built from the used objects."""
    if objs is None:
        objs = make_objects(sc)
    pre = dict(sc)
    pre.update(sc["_prelude"])
    objs_pre = dict(objs)
    for k, (name, mk) in OBJ_KEYS.items():
        if k in sc["_prelude"]:
            objs_pre[name] = mk(pre)
    m0 = make_model(pre, objs_pre)
    if init_only:
        m0._initialize()
    else:
        m0.run_model(till_termination=True)
    return make_model(sc, objs), objs


def base(**over):
    """A small, fast default scenario (Tunis wheat on sandy loam)."""
    sc = {
        "start": "1979/10/15", "end": "1980/05/31",
        "weather": {"file": "tunis_climate.txt"},
        "crop": {"name": "Wheat", "planting_date": "10/15"},
        "soil": {"type": "SandyLoam"},
        "iwc": {"value": ["FC"]},
        "off_season": False,
    }
    sc.update(over)
    return sc


FAST = dict(EmergenceCD=2, MaxRootingCD=8, SenescenceCD=12, MaturityCD=15, HIstartCD=7,
            FloweringCD=3, YldFormCD=6)


def fast_crop(planting_date="03/01", harvest_date=None, name="Wheat", **kw):
    k = dict(FAST)
    k.update(kw)
    return {"name": name, "planting_date": planting_date, "harvest_date": harvest_date, "kw": k}
