#!/usr/bin/env python3
"""Writes the task texts handed to independent sub-agents that produce seeded changes (mutation rounds, DESIGN 12.5).
Each agent gets ONLY the text of a property (from properties.jsonl), its own scratch worktree and the list of ideas already used
(seeded/ideas.json) - nothing from /verif.

usage: mkprompts.py <outdir> <prefix> <PROP,PROP> [<PROP,PROP> ...]     one agent per argument, tasks A, B, ... in the same worktree"""
import ast
import json
import os
import sys

ROOT = os.path.dirname(os.path.dirname(os.path.abspath(__file__)))

TASK = """You are helping to evaluate a verification framework by producing a realistic "seeded defect" for a Python library.

Library: AquaCrop-OSPy (a daily soil-crop-water simulation model), pure Python. Your private copy of the source is a git worktree at {wt} (only work there; never touch /repo or /verif, and do not read anything under /verif).
IMPORTANT: the package `aquacrop` is installed in /venv as an editable install pointing at ANOTHER directory, so to import YOUR modified copy you must run python as:
    cd {wt} && PYTHONPATH={wt} /venv/bin/python ...
The existing test-suite is run with:
    cd {wt} && PYTHONPATH={wt} /venv/bin/python -m pytest -q -p no:cacheprovider --timeout=900 tests
(33 tests, about 10 s; all pass on the unmodified copy). There is no network.

The semantic property that your change must BREAK:
-----
{pid}: {title}

Statement: {statement}

Quantified over: {quant}

Relevant source files: {files}

Ideas already used by others for this property (choose a DIFFERENT mechanism and, if you can, a different source file): {ideas}.
-----

Task: make ONE small, realistic source change inside {wt}/aquacrop (the kind of slip a maintainer could make in a refactoring or "optimisation": an off-by-one, a wrong variable, a missing reset/copy, a misplaced condition, a changed comparison, a caching shortcut, two cooperating sites that each look fine alone ...) such that
 1. the package still imports and the existing 33 tests STILL PASS with the change,
 2. the property above is violated for at least one valid input / configuration / call history,
 3. the violation needs something SPECIFIC to manifest - a particular option combination, an unusual but valid input, a multi-step sequence of operations, a particular day/season/phase - i.e. ordinary default use (the configurations of the existing tests) would NOT expose it at once,
 4. the change is not a blatant sabotage (no random numbers, no "if crop == X: break things" special-casing of names; keep it plausible).
{extra}Read the relevant source files first so the change is well targeted.

Deliver, in {out}:
 - patch.diff : output of `git -C {wt} diff` (the change only),
 - demo.py    : a standalone script (run as `cd <some copy of the source> && PYTHONPATH=<that copy> /venv/bin/python demo.py`) that exits with status 1 and prints what is wrong when run against the CHANGED source, and exits 0 against the UNCHANGED source. It should build the needed inputs itself (use `from aquacrop import ...`, `from aquacrop.utils import prepare_weather, get_filepath` with the built-in weather files such as 'tunis_climate.txt' (1979-2002), 'champion_climate.txt' (1982-2018), or synthetic pandas weather tables with columns MinTemp, MaxTemp, Precipitation, ReferenceET, Date).
 - notes.md   : which property it breaks, what exactly is needed for the violation to manifest, why the existing tests do not notice.
Verify everything yourself: run the test-suite with the change (must pass), run demo.py with the change (must exit 1), then save the change with `git -C {wt} diff > {out}/patch.diff`, revert it with `git -C {wt} checkout -- .`, run demo.py again on the unchanged source (must exit 0) (do NOT use git stash: the stash is shared with other worktrees). Leave the worktree REVERTED (unchanged source) at the end; the patch.diff file is the deliverable. Keep the final report short: the changed file(s), the idea, and the results of those three runs.
"""

EXTRA = ("Think like an adversary of a checker that samples many random valid configurations and tests the property's literal statement on the "
         "outputs: prefer a defect that such sampling is unlikely to hit (a narrow numeric window, a rarely combined pair of options, an effect "
         "that only appears on a later season / a later call / a later object, a value that is wrong but still inside every stated bound).\n")


def main():
    outdir, prefix = sys.argv[1], sys.argv[2]
    props = {}
    for line in open(os.path.join(ROOT, "properties.jsonl")):
        d = json.loads(line)
        props[d["id"]] = d
    ideas = json.load(open(os.path.join(ROOT, "seeded", "ideas.json")))
    os.makedirs(outdir, exist_ok=True)
    for n, arg in enumerate(sys.argv[3:], 1):
        nn = f"{n:02d}"
        wt = os.path.join(outdir, f"{prefix}{nn}")
        parts = []
        for k, pid in enumerate(arg.split(",")):
            ab = "abcdef"[k]
            d = props[pid]
            q = d["quantifier"]
            q = q if isinstance(q, dict) else ast.literal_eval(q)
            a = d["anchors"]
            a = a if isinstance(a, dict) else ast.literal_eval(a)
            out = os.path.join(outdir, f"out{prefix}{nn}{ab}")
            os.makedirs(out, exist_ok=True)
            open(os.path.join(outdir, f"assign_{prefix}{nn}{ab}.txt"), "w").write(pid)
            parts.append(f"================ TASK {ab.upper()} ================\n" + TASK.format(
                wt=wt, pid=pid, title=d["title"], statement=d["statement"], quant=q.get("text", ""), files=", ".join(a.get("files", [])),
                ideas="; ".join(ideas.get(pid, [])) or "none yet", out=out, extra=EXTRA))
        head = ("You have %d independent tasks of the same kind; do them one after the other in the same worktree (revert each change completely "
                "before starting the next).\n\n" % len(parts)) if len(parts) > 1 else ""
        open(os.path.join(outdir, f"prompt_{prefix}{nn}.txt"), "w").write(head + "\n\n".join(parts))
        print(os.path.join(outdir, f"prompt_{prefix}{nn}.txt"), arg)


if __name__ == "__main__":
    main()
