#!/venv/bin/python
"""Developer tool: statement/branch coverage of /repo/aquacrop by the scenario sets of the quick tier (no TLC involved).
Used to find pipeline branches that no scenario reaches, so that scenarios can be added (DESIGN 12.5)."""
import os, sys, json, warnings, random
warnings.filterwarnings("ignore")
sys.path.insert(0, os.path.dirname(os.path.abspath(__file__)))
import coverage

def main():
    tier = sys.argv[1] if len(sys.argv) > 1 else "quick"
    cov = coverage.Coverage(branch=True, source=["/repo/aquacrop"], data_file=None, omit=["*/crop_params.py", "*/lars.py", "*/scripts/*"])
    cov.start()
    import scenario as S, scenlib as L
    from checks import waterfam, cropfam, c07, c08, c11, c16
    scs = []
    for f in (waterfam.c01, waterfam.c02, waterfam.c03, waterfam.c04, cropfam.c05, cropfam.c06, cropfam.c12, cropfam.c13, cropfam.c19):
        scs += f(tier, 0)
    scs += c07.numeric(tier, 0) + c08.bases(tier, 0) + c11.configs(tier, 0) + c16.scenarios(tier, 0)
    seen = set(); uniq = []
    for sc in scs:
        k = json.dumps(sc, sort_keys=True, default=str)
        if k not in seen:
            seen.add(k); uniq.append(sc)
    print("scenarios", len(uniq))
    import signal
    def alarm(*a): raise TimeoutError()
    signal.signal(signal.SIGALRM, alarm)
    n_ok = 0
    for i, sc in enumerate(uniq):
        try:
            signal.alarm(30)
            m = S.make_model(sc)
            m.run_model(till_termination=True)
            n_ok += 1
        except BaseException as e:
            pass
        finally:
            signal.alarm(0)
    cov.stop()
    print("completed", n_ok)
    import io
    out = io.StringIO()
    cov.report(file=out, show_missing=True, skip_covered=False)
    open("/tmp/cov_report.txt", "w").write(out.getvalue())
    print(out.getvalue()[-3000:])

main()
