"""C18: documents describing the soil profile / initial water content the real code built, and replay of SoilBuild behaviours."""
import warnings

import numpy as np

from num import to_num, vec

warnings.filterwarnings("ignore")


def cm(x):
    return int(round(float(x) * 100))


def soil_doc(sc):
    """initialise the model of scenario sc and describe the profile it runs on"""
    import scenario as S
    if sc.get("_prelude"):          # the Soil object (and the others) served another model before - e.g. one with a shallower-rooting crop
        m, _ = S.make_model_after_prelude(sc, init_only=True)
    else:
        m = S.make_model(sc)
    m._initialize()
    prof = m._param_struct.Soil.Profile
    soil = m._param_struct.Soil
    crop = m._param_struct.Seasonal_Crop_List[0] if m._param_struct.Seasonal_Crop_List else m.crop
    dz = np.asarray(prof.dz, dtype=float)
    spec = sc.get("soil") or {}
    defs = []
    for lay in spec.get("layers", []) or []:
        defs.append({"wp": to_num(lay[1]), "fc": to_num(lay[2]), "sat": to_num(lay[3]), "ksat": to_num(lay[4]), "pen": to_num(lay[5])})
    iw = sc.get("iwc") or {"value": ["FC"]}
    typ = iw.get("wc_type", "Prop")
    meth = iw.get("method", "Layer")
    pts = []
    for at, v in zip(iw.get("depth_layer", [1]), iw.get("value", ["FC"])):
        p = {"at": int(at) if meth == "Layer" else cm(at)}
        if typ == "Prop":
            p["prop"] = str(v)
            p["value"] = to_num(0)
        else:
            p["value"] = to_num(float(v))
            p["prop"] = ""
        pts.append(p)
    d = {"dzcm": [cm(x) for x in dz], "dzsumcm": [cm(x) for x in prof.dzsum], "layer": [int(x) if np.isfinite(x) else -1 for x in np.asarray(prof.Layer, dtype=float)],
         "zbot": vec(prof.zBot), "ztop": vec(prof.z_top), "zmid": vec(prof.zMid),
         "dry": vec(prof.th_dry), "wp": vec(prof.th_wp), "fc": vec(prof.th_fc), "sat": vec(prof.th_s), "tau": vec(prof.tau),
         "ksat": vec(prof.Ksat), "pen": vec(prof.Penetrability), "layerDefs": defs,
         "zmaxcm": cm(crop.Zmax), "th0": vec(np.asarray(m._init_cond.th, dtype=float)),
         "iwc": {"type": typ, "method": meth, "points": pts},
         "nComp": int(soil.nComp), "zSoil": to_num(soil.zSoil)}
    return d


def soil_worker(sc, tmo=60):
    import signal
    import common as C
    signal.signal(signal.SIGALRM, C._alarm)
    signal.setitimer(signal.ITIMER_REAL, tmo)
    try:
        return {"ok": True, "doc": soil_doc(sc)}
    except C.RunTimeout:
        return {"ok": False, "error": {"type": "NonTermination", "msg": f"profile construction did not finish within {tmo}s"}}
    except BaseException as exc:  # noqa
        import traceback
        return {"ok": False, "error": {"type": type(exc).__name__, "msg": str(exc)[:300], "tb": traceback.format_exc()[-1500:]}}
    finally:
        signal.setitimer(signal.ITIMER_REAL, 0)


def build_worker(args):
    """replay one SoilBuild configuration on the code: returns the geometry the code built"""
    cfg, tmo = args
    import signal
    import common as C
    import scenlib as L
    signal.signal(signal.SIGALRM, C._alarm)
    signal.setitimer(signal.ITIMER_REAL, tmo)
    try:
        layers = []
        props = [[0.10, 0.22, 0.41, 1200.0, 100], [0.23, 0.39, 0.50, 125.0, 100], [0.32, 0.50, 0.54, 20.0, 100]]
        for k, t in enumerate(cfg["layers"]):
            layers.append([t / 100.0] + props[k])
        sc = L.scenario("Wheat", seed=1, soil_spec={"type": "custom", "kw": {"dz": [d / 100.0 for d in cfg["dz"]]}, "layers": layers},
                        crop_kw={"Zmax": cfg["zmax"] / 100.0},
                        iwc={"value": ["FC"] * len(layers), "depth_layer": list(range(1, len(layers) + 1))})
        import scenario as S
        m = S.make_model(sc)
        m._initialize()
        prof = m._param_struct.Soil.Profile
        return {"ok": True, "dz": [cm(x) for x in prof.dz], "layer": [int(x) for x in prof.Layer], "scenario": sc}
    except C.RunTimeout:
        return {"ok": False, "error": {"type": "NonTermination", "msg": f"profile construction did not finish within {tmo}s"}}
    except BaseException as exc:  # noqa
        return {"ok": False, "error": {"type": type(exc).__name__, "msg": str(exc)[:300]}}
    finally:
        signal.setitimer(signal.ITIMER_REAL, 0)
