#!/venv/bin/python
"""Entry point of every registered check:  check.py <PROPERTY-ID> [--tier quick|thorough] [--replay PATH]

exit 0: property held on everything explored (KNOWN-FINDING lines possible)
exit 1: 'VIOLATION property=<id> replay=<path>' printed
exit 2: machinery failure (TLC/SANY error, vacuity, tracer cannot attach) - never used to hide a violation
"""
import argparse
import importlib
import json
import os
import sys
import time
import traceback
import warnings

warnings.filterwarnings("ignore")
HERE = os.path.dirname(os.path.abspath(__file__))
sys.path.insert(0, HERE)
os.environ.setdefault("PYTHONHASHSEED", "0")
os.environ["AQUACROP_VERIF"] = "1"


def main():
    ap = argparse.ArgumentParser()
    ap.add_argument("prop")
    ap.add_argument("--tier", default=None)
    ap.add_argument("--replay", default=None)
    a = ap.parse_args()
    if a.tier:
        os.environ["VERIF_TIER"] = a.tier
    import common
    tier, seed = common.tier_seed()
    mod = importlib.import_module("checks." + a.prop.lower())
    t0 = time.time()
    try:
        if a.replay:
            rc = mod.replay(a.replay)
        else:
            rc = mod.run(tier, seed)
    except Exception as exc:
        import tlc
        traceback.print_exc()
        kind = "TLC" if isinstance(exc, tlc.TLCError) else "harness"
        print(f"MACHINERY-FAILURE property={a.prop} kind={kind} {type(exc).__name__}: {str(exc)[:500]}")
        sys.exit(2)
    print(f"[{a.prop}] tier={tier} seed={seed} wall={time.time() - t0:.1f}s exit={rc}")
    sys.exit(rc)


if __name__ == "__main__":
    main()
