#!/usr/bin/env python3
"""Regenerates /verif/MANIFEST.json from the table below (keeps it schema-valid at all times)."""
import json, os
ROOT = os.path.dirname(os.path.dirname(os.path.abspath(__file__)))
ids = [json.loads(l)["id"] for l in open(os.path.join(ROOT, "properties.jsonl"))]

TB = ("TLC 1.8 + CommunityModules; the harness projection (double -> 1e-12 fixed point, digests); attaching to the stage "
      "functions by name; model-checking results hold for the small constants listed in the evidence; conformance holds "
      "for the runs executed (counts in the evidence)")

CHECKS = {
 "C01": ("model_checking", "MC_Water (TLC, exhaustive over all kernel choices on a small lattice) shows the per-stage contracts of spec/WaterRel.tla compose to the day closure and carry-over as worded; every stage event and every day of traced runs of the real code is validated by TLC against the same relations (spec/Trace.tla)", "5 C01", "TLA+ contract actions + TLC model checking + TLC trace validation of stage-level traces"),
 "C02": ("model_checking", "MC_Water checks the four partition clauses from the stage relations; traced runs (storms 0-300 mm, bunds on/off/lowered, inhibition, CN adjustment, AMC on/off, efficiency 50-100) validated by TLC", "5 C02", "TLA+ contract actions + TLC model checking + TLC trace validation"),
 "C03": ("model_checking", "state invariant of MC_Water and of every logged state of traced runs (saturated starts, 300 mm storms, multi-year droughts, shallow tables, low-Ksat layers)", "5 C03", "TLA+ state invariant checked by TLC on the model and on recorded traces"),
 "C04": ("model_checking", "sign / actual<=potential clauses as MC_Water invariants and on every day of traced runs (dense-canopy crops, ponding, mulches, partial wetting)", "5 C04", "TLA+ invariants checked by TLC on the model and on recorded traces"),
 "C05": ("model_checking", "crop-envelope relation (spec/CropRel.tla) evaluated by TLC on every day of traced runs over crops x soil classes x stress regimes; clock automaton MC_Clock carries dap/season structure. Thin model: the value is in trace validation", "5 C05", "TLA+ contract relation + TLC trace validation (thin model)"),
 "C06": ("model_checking", "multiplicative yield identities (exact limb arithmetic in TLC) on every in-season day, summary-row structure model-checked in MC_Clock and validated on traces (bit-equal yields, step/date, seasonal irrigation sum)", "5 C06", "TLC model checking of summary structure + TLC trace validation with exact arithmetic"),
 "C12": ("model_checking", "action property on parameter digests evaluated by TLC at every step of traced runs (z_cn/z_germ/z_top off compartment boundaries, non-uniform dz, deepened profiles)", "5 C12", "TLA+ action property on content digests, TLC trace validation"),
 "C13": ("model_checking", "the irrigation decision is an exact relation (spec/IrrRel.tla): MC_Irr (spec/AquaIrr.tla) model-checks that it implies the contract over a season; TLC recomputes it for every decision of every traced run, plus day/season contract clauses; schedule bound by date", "5 C13", "exact TLA+ decision relation, TLC trace validation"),
 "C19": ("model_checking", "water-table series recomputed by TLC from the observations, adjusted-field-capacity / capillary-rise / saturation clauses on every stage and day of traced runs; MC_Water carries the table variable", "5 C19", "TLA+ contract actions + TLC model checking + TLC trace validation"),
}

CHECKS.update({
 "C07": ("model_checking", "the clock is an EXACT model (spec/ClockRel.tla on the real Gregorian calendar): MC_Clock checks chronology, dap counting, season-end cause, consecutive seasons, no-skip/jump, termination (liveness) over a generated window lattice; the same windows are replayed on the code with a fast crop and every step is compared with ClockStep by TLC; clock events of full-length runs (thermal crops, deaths) are validated too", "5 C07", "exact TLA+ clock model; TLC model checking incl. liveness; replay of spec windows into the code + trace validation"),
 "C08": ("model_checking", "season k of a multi-season run vs a fresh single-season run started on that season's planting date: both executed, tables aligned by date and judged by TLC (spec/Equiv.tla, rule seasonOffset); the reset itself is checked field-wise in Trace.tla (Reset clauses)", "5 C08", "TLC-judged lock-step equivalence of two recorded runs (Equiv.tla)"),
 "C09": ("model_checking", "MC_Clock with SliceInvariant (clock after n steps independent of the call sequence); on the code ALL compositions of short windows (T<=9 quick, all 2^(T-1)) and random slicings of long runs are executed and judged by TLC against the uninterrupted run, including per-call completion flags", "5 C09", "TLC model checking of call slicing + exhaustive compositions replayed on the code, judged by Equiv.tla"),
 "C10": ("model_checking", "TLC enumerates every interleaving of New/Step/Finish over two instances (spec/Histories.tla, Isolation / NonInterference); sampled behaviours are replayed in one process and each instance compared with its solo baseline; fresh interpreter processes with different hash seeds", "5 C10", "TLC-enumerated API histories replayed on the code, judged by Equiv.tla"),
 "C11": ("model_checking", "re-running the same model object / building new models from the same user objects after n runs, for every strategy (incl. dated schedule), deepened profiles, thermal and converted crops, CO2 options; last run vs first run judged by TLC; an exception is a violation", "5 C11", "API histories with shared inputs replayed on the code, judged by Equiv.tla"),
 "C14": ("exploration", "pairs (base, weather perturbed from cut day t on) judged on rows before t; weather outside the window altered / removed / padded; end date extended; TLC judges every pair (Equiv rules prefix / identity / seasons). Two-run property of the implementation: explored, not proved", "5 C14", "perturbation pairs judged by Equiv.tla"),
 "C15": ("exploration", "weather-table transformations (120 column permutations x extra columns x 9 index kinds incl. date-like and non-unique ones x extra / sparse / missing rows outside the window; thorough: every permutation with 30 settings of the other dimensions and every setting with 4 permutations; quick: covering sample) vs canonical table, rule identity", "5 C15", "transformation pairs judged by Equiv.tla"),
 "C16": ("exploration", "catalogue crops x soils x strategies (thorough: all 3330), option switches, leap-day dates, windows with no/partial seasons; each outcome judged by TLC against spec/Outcome.tla (completed & finite, or documented rejection in a documented phase); timeouts are non-termination verdicts", "5 C16", "outcome oracle in TLA+ (Outcome.tla) over an enumerated configuration space"),
 "C17": ("exploration", "MC_Gdd model-checks the transcribed GDD formula exhaustively (half-degree lattice); real response functions are swept along lattices and every sweep is judged by TLC (spec/Response.tla): range, monotonicity as an action property over consecutive calls, boundary values, exact GDD / linear coefficients, inverse", "5 C17", "TLC model checking of the piecewise-linear part + lattice sweeps judged by Response.tla"),
 "C18": ("model_checking", "the profile-construction algorithm is an exact TLA+ state machine in integer centimetres (spec/SoilBuild.tla): MC_Soil checks well-formedness and termination of the deepening loop; TLC's finished profiles are replayed on the code through the public API and compared for equality; profiles + initial water contents built by the code are judged by spec/SoilDoc.tla", "5 C18", "exact TLA+ construction model, TLC incl. liveness, replay of spec behaviours into the code"),
 "C20": ("exploration", "each listed neutral transformation alone and in combination vs the base configuration, rule identity, judged by TLC", "5 C20", "neutral-transformation pairs judged by Equiv.tla"),
})

NA_REASON = "check not built yet (work in progress; see DESIGN.md section 5)"

m = {"version": 1,
     "setup_cmd": "cd /verif && bin/setup",
     "hooks": {"guard": "AQUACROP_VERIF", "enable": "no source hooks: the harness-side tracer (harness/tracer.py) rebinds the stage functions while AQUACROP_VERIF=1 is set by bin/check",
               "baseline_off_cmd": "cd /repo && env -u AQUACROP_VERIF /venv/bin/python -m pytest -q -p no:cacheprovider --timeout=900",
               "source_commits": [], "add_only": True},
     "engines": [{"name": "tlc-trace", "path": "harness/tlc.py", "serves_properties": sorted(CHECKS), "kind_free_text": "TLC 1.8 model checking + batched trace validation (spec/*.tla)"}],
     "checks": [], "not_applicable": [],
     "notes": "bin/check <ID> honours VERIF_TIER / VERIF_SEED; exit 2 = machinery failure. Known findings: known_findings.json. Every trace-based check also runs a share of a 2-way covering array over 13 configuration dimensions (harness/scenlib.py pairwise_cases; all of it in the thorough tier and in C16); independently written seeded changes and the checks that report them: seeded/README.md."}
for i in ids:
    if i in CHECKS:
        cat, text, ref, tech = CHECKS[i]
        m["checks"].append({"property_id": i, "quick_cmd": f"bin/check {i} --tier quick", "thorough_cmd": f"bin/check {i} --tier thorough",
                            "evidence_file": f"evidence/{i}.json", "replay_cmd_template": f"bin/check {i} --replay {{path}}",
                            "engine": "tlc-trace", "level_claimed": {"category": cat, "text": text, "design_ref": ref},
                            "level_note": TB, "technique": tech})
    else:
        m["not_applicable"].append({"property_id": i, "reason": NA_REASON})
json.dump(m, open(os.path.join(ROOT, "MANIFEST.json"), "w"), indent=1)
print("checks:", len(m["checks"]), "n/a:", len(m["not_applicable"]))
