#!/usr/bin/env python3
"""Regression over all kept seeded changes: apply each patch to a scratch copy of the repository (REPO_DIR, never /repo itself),
run the quick check of the property it was written against with PYTHONPATH pointing at the copy, restore, report.
usage: REPO_DIR=<git checkout of /repo HEAD> python3 harness/seedregress.py [name-prefix ...]"""
import glob, json, os, subprocess, sys, time
ROOT = os.path.dirname(os.path.dirname(os.path.abspath(__file__)))
repo = os.environ["REPO_DIR"]
assert os.path.abspath(repo) != "/repo"
sel = sys.argv[1:]
res = {}
for d in sorted(glob.glob(os.path.join(ROOT, "seeded", "*"))):
    name = os.path.basename(d)
    if not os.path.exists(os.path.join(d, "meta.json")) or (sel and not any(name.startswith(s) for s in sel)):
        continue
    prop = json.load(open(os.path.join(d, "meta.json")))["written_against"]
    subprocess.run(["git", "-C", repo, "checkout", "-q", "--", "."], check=True)
    p = subprocess.run(["git", "-C", repo, "apply", os.path.join(d, "patch.diff")], capture_output=True, text=True)
    if p.returncode != 0:
        res[name] = "patch does not apply"
        print(name, res[name], flush=True)
        continue
    t0 = time.time()
    env = dict(os.environ, PYTHONPATH=repo)
    q = subprocess.run(["bin/check", prop, "--tier", "quick"], cwd=ROOT, env=env, capture_output=True, text=True)
    res[name] = {"prop": prop, "exit": q.returncode, "wall_s": round(time.time() - t0, 1)}
    print(name, res[name], flush=True)
    subprocess.run(["git", "-C", repo, "checkout", "-q", "--", "."], check=True)
missed = [n for n, r in res.items() if not (isinstance(r, dict) and r["exit"] == 1)]
print("MISSED:", missed)
json.dump(res, open("/tmp/seedregress.json", "w"), indent=1)
