"""Running TLC: model-checking instances and batched trace validation."""
import json
import os
import re
import shutil
import subprocess
import tempfile
import time
from concurrent.futures import ThreadPoolExecutor

SPEC_DIR = os.path.join(os.path.dirname(os.path.dirname(os.path.abspath(__file__))), "spec")
JAR = "/opt/veriftools/tla/tla2tools.jar"
CM = "/opt/veriftools/tla/CommunityModules-deps.jar"


class TLCError(Exception):
    pass


def _java(heap="3g", parallel_gc=False):
    return ["java", f"-Xmx{heap}", "-XX:+UseParallelGC" if parallel_gc else "-XX:+UseSerialGC", "-cp", f"{JAR}:{CM}", "tlc2.TLC"]


def scratch(prefix="verif_"):
    return tempfile.mkdtemp(prefix=prefix)


def run_mc(module, cfg, workers=16, timeout=900, extra=None, heap="8g", workdir=None, simulate=None, env=None, cwd=None):
    """Run a model-checking instance spec/<module>.tla with spec/<cfg>; returns a dict of statistics.
    Raises TLCError on a parse/semantic/evaluation error (machinery failure)."""
    own = workdir is None
    wd = workdir or scratch("verif_mc_")
    os.makedirs(wd, exist_ok=True)
    try:
        cmd = _java(heap, parallel_gc=True) + ["-workers", str(workers), "-metadir", os.path.join(wd, "meta"),
                                               "-noGenerateSpecTE", "-coverage", "1", "-config", cfg]
        if simulate:
            cmd += ["-simulate", simulate]
        if extra:
            cmd += list(extra)
        cmd.append(module)
        t0 = time.time()
        e = dict(os.environ)
        if env:
            e.update(env)
        try:
            p = subprocess.run(cmd, cwd=cwd or SPEC_DIR, capture_output=True, text=True, timeout=timeout, env=e)
            out = p.stdout + p.stderr
            rc = p.returncode
            timed_out = False
        except subprocess.TimeoutExpired as ex:
            out = (ex.stdout or b"").decode() if isinstance(ex.stdout, bytes) else (ex.stdout or "")
            rc = -9
            timed_out = True
            subprocess.run(["pkill", "-f", os.path.join(wd, "meta")], capture_output=True)
        res = parse_mc_output(out)
        res.update(rc=rc, wall_s=round(time.time() - t0, 2), timed_out=timed_out, cmd=" ".join(cmd[cmd.index("tlc2.TLC"):]))
        res["raw_tail"] = out[-3000:]
        if res["fatal"]:
            raise TLCError(f"TLC failed on {module}/{cfg}:\n" + out[-4000:])
        return res
    finally:
        if own:
            shutil.rmtree(wd, ignore_errors=True)


def run_mc_generated(name, tla_text, cfg_text, **kw):
    """Run a generated wrapper module (constants as TLA+ literals) next to the committed spec modules."""
    wd = scratch("verif_gen_")
    try:
        for f in os.listdir(SPEC_DIR):
            if f.endswith(".tla"):
                os.symlink(os.path.join(SPEC_DIR, f), os.path.join(wd, f))
        with open(os.path.join(wd, name + ".tla"), "w") as fh:
            fh.write(tla_text)
        with open(os.path.join(wd, name + ".cfg"), "w") as fh:
            fh.write(cfg_text)
        return run_mc(os.path.join(wd, name + ".tla"), os.path.join(wd, name + ".cfg"), workdir=os.path.join(wd, "w"), cwd=wd, **kw)
    finally:
        shutil.rmtree(wd, ignore_errors=True)


def parse_mc_output(out):
    res = {"states": 0, "distinct": 0, "violated": [], "fatal": False, "completed": False, "depth": 0, "coverage": {}}
    m = re.findall(r"(\d[\d,]*) states generated, (\d[\d,]*) distinct states found", out)
    if m:
        res["states"] = int(m[-1][0].replace(",", ""))
        res["distinct"] = int(m[-1][1].replace(",", ""))
    m = re.search(r"depth of the complete state graph search is (\d+)", out)
    if m:
        res["depth"] = int(m.group(1))
    if "Model checking completed. No error has been found." in out or "Finished in" in out:
        res["completed"] = "Model checking completed" in out
    for m in re.finditer(r"Error: Invariant (\S+) is violated", out):
        res["violated"].append(m.group(1))
    for m in re.finditer(r"Error: Action property (\S+) is violated|Error: Temporal properties were violated", out):
        res["violated"].append(m.group(1) or "temporal")
    if "Deadlock reached" in out:
        res["violated"].append("deadlock")
    if re.search(r"Error: (Parsing or semantic|TLC threw|Evaluating|The invariant|In evaluation|Attempted|The first argument|The second argument)", out) or \
       "***Parse Error***" in out or "Semantic errors" in out or "java.lang." in out and "Exception" in out and not res["violated"]:
        if not res["violated"]:
            res["fatal"] = True
    # coverage of actions:  <Action line ..., col ... of module M>: distinct:total
    for m in re.finditer(r"<(\w+) line \d+, col \d+ to line \d+, col \d+ of module (\w+)(?: \([\d ]+\))?>: (\d+):(\d+)", out):
        res["coverage"][m.group(1)] = res["coverage"].get(m.group(1), 0) + int(m.group(4))
    return res


def _validate_batch(args):
    docs, idx, wd, module, timeout = args
    f = os.path.join(wd, f"batch_{idx}.json")
    slim = [{"cfg": d["cfg"], "events": d["events"]} for d in docs]
    with open(f, "w") as fh:
        json.dump(slim, fh)
    env = dict(os.environ)
    env["TRACE_FILE"] = f
    cmd = _java("4g") + ["-workers", "1", "-metadir", os.path.join(wd, f"meta_{idx}"), "-noGenerateSpecTE",
                         "-config", module + ".cfg", module + ".tla"]
    t0 = time.time()
    try:
        p = subprocess.run(cmd, cwd=SPEC_DIR, capture_output=True, text=True, timeout=timeout, env=env)
        out = p.stdout + p.stderr
    except subprocess.TimeoutExpired as ex:
        out = ((ex.stdout or b"").decode() if isinstance(ex.stdout, bytes) else (ex.stdout or "")) + "\nTIMEOUT"
    verdicts = {}
    for line in out.splitlines():
        line = line.strip()
        if line.startswith('"[\\"VERDICT\\"'):
            v = json.loads(json.loads(line))
            verdicts[v[1]] = {"events": v[2], "viol": v[3]}
    m = re.findall(r"(\d[\d,]*) states generated, (\d[\d,]*) distinct states found", out)
    states = int(m[-1][0].replace(",", "")) if m else 0
    os.remove(f)
    shutil.rmtree(os.path.join(wd, f"meta_{idx}"), ignore_errors=True)
    return idx, verdicts, states, out, time.time() - t0


def validate_traces(docs, module="Trace", jobs=14, per_batch=None, timeout=1500):
    """Validate trace documents with TLC.  Returns (results, stats): results[i] = list of violation entries
    [eventIndex, stage, clause, [propertyIds]] for docs[i].  Raises TLCError if TLC could not judge a trace."""
    if not docs:
        return [], {"states": 0, "jvms": 0, "wall_s": 0.0}
    wd = scratch("verif_tv_")
    try:
        n = len(docs)
        if per_batch is None:
            per_batch = max(1, (n + jobs - 1) // jobs)
        # balance batches by number of events
        order = sorted(range(n), key=lambda i: -len(docs[i]["events"]))
        nb = min(jobs, n) if per_batch * jobs >= n else (n + per_batch - 1) // per_batch
        batches = [[] for _ in range(nb)]
        loads = [0] * nb
        for i in order:
            b = loads.index(min(loads))
            batches[b].append(i)
            loads[b] += len(docs[i]["events"]) + 50
        t0 = time.time()
        results = [None] * n
        states = 0
        with ThreadPoolExecutor(max_workers=jobs) as ex:
            futs = [ex.submit(_validate_batch, ([docs[i] for i in b], k, wd, module, timeout)) for k, b in enumerate(batches)]
            for fu in futs:
                idx, verdicts, st, out, wall = fu.result()
                states += st
                b = batches[idx]
                for pos, i in enumerate(b):
                    v = verdicts.get(pos + 1)
                    if v is None:
                        raise TLCError(f"TLC produced no verdict for trace {i} (batch {idx}):\n" + out[-5000:])
                    if v["events"] != len(docs[i]["events"]):
                        raise TLCError(f"verdict for trace {i} covers {v['events']} of {len(docs[i]['events'])} events")
                    results[i] = v["viol"]
        return results, {"states": states, "jvms": len(batches), "wall_s": round(time.time() - t0, 2)}
    finally:
        shutil.rmtree(wd, ignore_errors=True)


def _pairs_batch(args):
    docs, idx, wd, timeout = args[:4]
    module = args[4] if len(args) > 4 else "Equiv"
    f = os.path.join(wd, f"pairs_{idx}.json")
    with open(f, "w") as fh:
        json.dump(docs, fh)
    env = dict(os.environ)
    env["TRACE_FILE"] = f
    cmd = _java("4g") + ["-workers", "1", "-metadir", os.path.join(wd, f"pmeta_{idx}"), "-noGenerateSpecTE",
                         "-config", module + ".cfg", module + ".tla"]
    try:
        p = subprocess.run(cmd, cwd=SPEC_DIR, capture_output=True, text=True, timeout=timeout, env=env)
        out = p.stdout + p.stderr
    except subprocess.TimeoutExpired as ex:
        out = ((ex.stdout or b"").decode() if isinstance(ex.stdout, bytes) else (ex.stdout or "")) + "\nTIMEOUT"
    verdicts = {}
    for line in out.splitlines():
        line = line.strip()
        if line.startswith('"[\\"VERDICT\\"'):
            v = json.loads(json.loads(line))
            verdicts[v[1]] = v[2]
    m = re.findall(r"(\d[\d,]*) states generated, (\d[\d,]*) distinct states found", out)
    states = int(m[-1][0].replace(",", "")) if m else 0
    os.remove(f)
    shutil.rmtree(os.path.join(wd, f"pmeta_{idx}"), ignore_errors=True)
    return idx, verdicts, states, out


def validate_docs(docs, module, weight, jobs=14, timeout=1200):
    """generic one-state-per-document judgement (Response.tla, ...)"""
    if not docs:
        return [], {"states": 0, "jvms": 0, "wall_s": 0.0}
    wd = scratch("verif_dv_")
    try:
        n = len(docs)
        nb = min(jobs, n)
        batches = [[] for _ in range(nb)]
        loads = [0] * nb
        for i in sorted(range(n), key=lambda i: -weight(docs[i])):
            b = loads.index(min(loads))
            batches[b].append(i)
            loads[b] += weight(docs[i]) + 10
        t0 = time.time()
        res = [None] * n
        states = 0
        with ThreadPoolExecutor(max_workers=jobs) as ex:
            futs = [ex.submit(_pairs_batch, ([docs[i] for i in b], k, wd, timeout, module)) for k, b in enumerate(batches)]
            for fu in futs:
                idx, verdicts, st, out = fu.result()
                states += st
                for pos, i in enumerate(batches[idx]):
                    if pos + 1 not in verdicts:
                        raise TLCError(f"TLC produced no verdict for document {i} ({module}):\n" + out[-4000:])
                    res[i] = verdicts[pos + 1]
        return res, {"states": states, "jvms": nb, "wall_s": round(time.time() - t0, 2)}
    finally:
        shutil.rmtree(wd, ignore_errors=True)


def validate_pairs(pairs, jobs=14, timeout=1200):
    """pairs: list of pair documents (equiv.pair_doc).  Returns (verdicts, stats); verdicts[i] is the record Judge(p)."""
    if not pairs:
        return [], {"states": 0, "jvms": 0, "wall_s": 0.0}
    wd = scratch("verif_eq_")
    try:
        n = len(pairs)
        nb = min(jobs, n)
        batches = [[] for _ in range(nb)]
        order = sorted(range(n), key=lambda i: -(len(pairs[i]["rowsA"]) + len(pairs[i]["rowsB"])))
        loads = [0] * nb
        for i in order:
            b = loads.index(min(loads))
            batches[b].append(i)
            loads[b] += len(pairs[i]["rowsA"]) + len(pairs[i]["rowsB"]) + 100
        t0 = time.time()
        res = [None] * n
        states = 0
        with ThreadPoolExecutor(max_workers=jobs) as ex:
            futs = [ex.submit(_pairs_batch, ([pairs[i] for i in b], k, wd, timeout)) for k, b in enumerate(batches)]
            for fu in futs:
                idx, verdicts, st, out = fu.result()
                states += st
                for pos, i in enumerate(batches[idx]):
                    if pos + 1 not in verdicts:
                        raise TLCError(f"TLC produced no verdict for pair {i}:\n" + out[-4000:])
                    res[i] = verdicts[pos + 1]
        return res, {"states": states, "jvms": nb, "wall_s": round(time.time() - t0, 2)}
    finally:
        shutil.rmtree(wd, ignore_errors=True)
