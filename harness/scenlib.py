"""Seeded generators of *valid* scenarios (documented input constraints respected) for the conformance runs.

The dimensions follow DESIGN.md section 4: catalogue crops x soils x strategies, layered / custom soils, bunds,
mulches, efficiency, water tables, initial water content types, off-season, multi-season, storms, droughts.
"""
import random
import datetime as dt

CROPS = ["Barley", "BarleyGDD", "Cotton", "CottonGDD", "Default", "DryBean", "DryBeanGDD", "Maize", "MaizeGDD",
         "PaddyRice", "PaddyRiceGDD", "Potato", "PotatoGDD", "PotatoLocalGDD", "Quinoa", "Sorghum", "SorghumGDD",
         "Soybean", "SoybeanGDD", "SugarBeet", "SugarBeetGDD", "SugarBeetGDD_UK", "SugarCane", "Sunflower",
         "SunflowerGDD", "Tomato", "TomatoGDD", "Wheat", "WheatGDD", "WheatGDD_1dec", "HydWheatGDD", "WheatLongGDD",
         "localpaddy", "MaizeChampionGDD", "Tef", "AlfalfaGDD", "Cassava"]
CAL_CROPS = ["Barley", "Cotton", "Default", "DryBean", "Maize", "PaddyRice", "Potato", "Quinoa", "Sorghum", "Soybean",
             "SugarBeet", "SugarCane", "Sunflower", "Tomato", "Wheat", "Tef", "Cassava"]
GDD_CROPS = [c for c in CROPS if c not in CAL_CROPS]
DENSE_CROPS = ["Cotton", "CottonGDD", "DryBean", "DryBeanGDD", "Soybean", "SoybeanGDD", "SugarBeet", "SugarBeetGDD",
               "SugarBeetGDD_UK", "Sunflower", "SunflowerGDD"]          # CCx > 0.96
SOILS = ["Clay", "ClayLoam", "Default", "Loam", "LoamySand", "Sand", "SandyClay", "SandyClayLoam", "SandyLoam", "Silt",
         "SiltClayLoam", "SiltLoam", "SiltClay", "Paddy", "ac_TunisLocal"]
# calendar-day maturity of each crop (for choosing windows); thermal crops get a generous allowance
MATURITY_CD = {"Barley": 93, "BarleyGDD": 130, "Cotton": 174, "CottonGDD": 200, "Default": 125, "DryBean": 115,
               "DryBeanGDD": 150, "Maize": 132, "MaizeGDD": 170, "PaddyRice": 104, "PaddyRiceGDD": 150, "Potato": 121,
               "PotatoGDD": 130, "PotatoLocalGDD": 160, "Quinoa": 180, "Sorghum": 102, "SorghumGDD": 170, "Soybean": 130,
               "SoybeanGDD": 200, "SugarBeet": 142, "SugarBeetGDD": 200, "SugarBeetGDD_UK": 230, "SugarCane": 365,
               "Sunflower": 127, "SunflowerGDD": 180, "Tomato": 110, "TomatoGDD": 170, "Wheat": 197, "WheatGDD": 230,
               "WheatGDD_1dec": 230, "HydWheatGDD": 230, "WheatLongGDD": 300, "localpaddy": 150, "MaizeChampionGDD": 170,
               "Tef": 99, "AlfalfaGDD": 200, "Cassava": 360}


def reach_m(dz):
    """deepest profile the deepening loop of read_model_parameters can produce from the thickness list dz (metres)"""
    tot = 0.0
    for d in dz:
        d = round(float(d), 2)
        while d < 0.25:
            d = round(d + 0.1, 2)
        tot += d
    return round(tot, 2)


def zmax_of(crop, kw=None):
    if kw and "Zmax" in kw:
        return float(kw["Zmax"])
    try:
        from aquacrop.entities.crops.crop_params import crop_params
        return float(crop_params.get(crop, {}).get("Zmax", 1.0) or 1.0)
    except Exception:
        return 1.0


def deepenable(sc):
    """False when the configuration runs into the known non-terminating deepening loop (known finding KF-deepening-hang)"""
    soil = sc.get("soil") or {}
    dz = (soil.get("kw") or {}).get("dz")
    if soil.get("type") == "ac_TunisLocal":
        dz = [0.1] * 6 + [0.15] * 5 + [0.2]
    if not dz:
        dz = [0.1] * 12
    z = zmax_of(sc["crop"]["name"], sc["crop"].get("kw"))
    need = z + 0.1
    return round(sum(dz), 2) >= need or reach_m(dz) > need + 1e-9


def dstr(d):
    return f"{d.year}/{d.month:02d}/{d.day:02d}"


def window(crop, plant_md=(4, 20), year=2001, seasons=1, lead=0, tail=40):
    """simulation window for `seasons` seasons of `crop` planted on plant_md of `year`"""
    p = dt.date(year, plant_md[0], plant_md[1])
    start = p - dt.timedelta(days=lead)
    last_p = dt.date(year + seasons - 1, plant_md[0], plant_md[1])
    end = last_p + dt.timedelta(days=MATURITY_CD.get(crop, 150) + tail)
    return dstr(start), dstr(end), f"{plant_md[0]:02d}/{plant_md[1]:02d}"


def synth(seed, regime="warm", start="1999/01/01", days=2600, events=None, params=None):
    w = {"synth": {"seed": int(seed), "regime": regime, "start": start, "days": days}}
    if events:
        w["synth"]["events"] = events
    if params:
        w["synth"]["params"] = params
    return w


LAYERED_SOILS = {
    "two_layer": {"type": "custom", "kw": {"dz": [0.1] * 12},
                  "layers": [[0.4, 0.12, 0.26, 0.43, 800.0, 100], [0.8, 0.25, 0.40, 0.50, 60.0, 100]]},
    "three_layer": {"type": "custom", "kw": {"dz": [0.1] * 6 + [0.2] * 5},
                    "layers": [[0.3, 0.10, 0.22, 0.41, 1200.0, 100], [0.5, 0.23, 0.39, 0.50, 125.0, 100],
                               [0.8, 0.32, 0.50, 0.54, 20.0, 100]]},
    "low_ksat": {"type": "custom", "kw": {"dz": [0.1] * 12},
                 "layers": [[0.5, 0.32, 0.50, 0.54, 15.0, 100], [0.7, 0.39, 0.54, 0.55, 2.0, 100]]},
    "texture": {"type": "custom", "kw": {"dz": [0.1] * 12},
                "texture_layers": [[0.6, 40, 20, 2.5, 100], [0.6, 20, 40, 1.5, 100]]},
    "restrictive": {"type": "custom", "kw": {"dz": [0.1] * 12},
                    "layers": [[0.5, 0.12, 0.26, 0.43, 800.0, 100], [0.7, 0.25, 0.40, 0.50, 60.0, 40]]},
    # permeable top over an impeding subsoil on a non-uniform grid (back-up of drainage across compartments of different thickness)
    "impeding_uneven": {"type": "custom", "kw": {"dz": [0.05, 0.05, 0.1, 0.1, 0.2, 0.2, 0.3, 0.3]},
                        "layers": [[0.3, 0.06, 0.13, 0.36, 1500.0, 100], [1.0, 0.39, 0.54, 0.55, 2.0, 100]]},
    # coarse top over fine subsoil (contrasting saturation / field capacity between layers), uniform grid
    "sand_over_clay": {"type": "custom", "kw": {"dz": [0.1] * 12},
                       "layers": [[0.3, 0.06, 0.13, 0.36, 3000.0, 100], [0.9, 0.39, 0.54, 0.55, 35.0, 100]]},
    # fine top over coarse subsoil (the reverse contrast)
    "clay_over_sand": {"type": "custom", "kw": {"dz": [0.1] * 12},
                       "layers": [[0.5, 0.32, 0.50, 0.54, 100.0, 100], [0.7, 0.06, 0.13, 0.36, 3000.0, 100]]},
    # very permeable top over a subsoil of LOW conductivity but LARGE drainable porosity (a storm saturates the top; the subsoil is pushed above
    # saturation and water has to be stored / passed on over several days)
    "sand_over_porous": {"type": "custom", "kw": {"dz": [0.1] * 12, "cn": 40, "rew": 7},
                         "layers": [[0.4, 0.06, 0.13, 0.36, 3000.0, 100], [0.8, 0.20, 0.33, 0.50, 10.0, 100]]},
    # layers declared only for the upper part of the grid: compartments below inherit the last layer
    "shallow_layers": {"type": "custom", "kw": {"dz": [0.1] * 14},
                       "layers": [[0.3, 0.10, 0.22, 0.41, 1200.0, 100], [0.4, 0.23, 0.39, 0.50, 125.0, 100]]},
    "uneven_dz": {"type": "custom", "kw": {"dz": [0.05, 0.05, 0.1, 0.1, 0.15, 0.15, 0.2, 0.2, 0.2, 0.2]},
                  "layers": [[1.4, 0.15, 0.31, 0.46, 500.0, 100]]},
}


def iwc_variants(nlayers=1):
    v = [{"value": ["FC"] * nlayers, "depth_layer": list(range(1, nlayers + 1))},
         {"value": ["WP"] * nlayers, "depth_layer": list(range(1, nlayers + 1))},
         {"value": ["SAT"] * nlayers, "depth_layer": list(range(1, nlayers + 1))},
         {"wc_type": "Pct", "value": [50] * nlayers, "depth_layer": list(range(1, nlayers + 1))},
         {"wc_type": "Pct", "method": "Depth", "depth_layer": [0.2, 0.8], "value": [90, 30]},
         {"wc_type": "Prop", "method": "Depth", "depth_layer": [0.3, 1.0], "value": ["FC", "WP"]}]
    if nlayers >= 2:
        # layers listed in another order than 1, 2, ... (each value belongs to the layer it names)
        order = list(range(nlayers, 0, -1))
        v.append({"value": (["WP", "FC", "SAT"] * 2)[:nlayers], "depth_layer": order})
        v.append({"wc_type": "Pct", "value": [20 + 25 * k for k in range(nlayers)], "depth_layer": order})
    # Depth method with an observation BELOW the bottom of any profile (its value refers to the bottom layer)
    v.append({"wc_type": "Pct", "method": "Depth", "depth_layer": [0.2, 0.8, 3.5], "value": [70, 40, 55]})
    v.append({"wc_type": "Prop", "method": "Depth", "depth_layer": [0.3, 3.0], "value": ["FC", "WP"]})
    return v


def irr_variants(rnd, start, end, plant_md, year):
    p = dt.date(year, plant_md[0], plant_md[1])
    sched = [[dstr(p + dt.timedelta(days=d)), a] for d, a in ((5, 20), (20, 35.5), (41, 12), (75, 60), (-10, 15), (400, 25))]
    return [
        {"method": 0},
        {"method": 1, "kw": {"SMT": [40, 60, 70, 30]}},
        {"method": 1, "kw": {"SMT": [80, 80, 80, 80], "AppEff": 70, "MaxIrr": 12}},
        {"method": 1, "kw": {"SMT": [60, 60, 60, 60], "MaxIrrSeason": 90}},
        {"method": 2, "kw": {"IrrInterval": 7}},
        {"method": 2, "kw": {"IrrInterval": rnd.choice([1, 3, 10]), "AppEff": 85, "WetSurf": 40, "MaxIrr": 18}},
        {"method": 3, "schedule": sched},
        {"method": 3, "schedule": sched, "kw": {"MaxIrr": 30, "AppEff": 90}},
        {"method": 4, "kw": {"NetIrrSMT": 70}},
        {"method": 4, "kw": {"NetIrrSMT": 40}},
        {"method": 5, "kw": {"depth": 4.5}},
        {"method": 5, "kw": {"depth": 9, "MaxIrrSeason": 200, "AppEff": 75}},
    ]


def field_variants():
    return [None,
            {"mulches": True, "mulch_pct": 80, "f_mulch": 0.6},
            {"bunds": True, "z_bund": 0.15, "bund_water": 40},
            {"bunds": True, "z_bund": 0.05, "bund_water": 0},
            {"sr_inhb": True},
            {"curve_number_adj": True, "curve_number_adj_pct": -15},
            {"curve_number_adj": True, "curve_number_adj_pct": 10},
            # combinations of surface features
            {"mulches": True, "mulch_pct": 60, "f_mulch": 0.6, "bunds": True, "z_bund": 0.1, "bund_water": 30},
            {"mulches": True, "mulch_pct": 90, "f_mulch": 0.4, "sr_inhb": True},
            {"bunds": True, "z_bund": 0.08, "bund_water": 10, "curve_number_adj": True, "curve_number_adj_pct": 15}]


def gw_variants(start, year):
    return [None,
            {"water_table": "Y", "dates": [start], "values": [1.1]},
            {"water_table": "Y", "dates": [start], "values": [0.5]},
            {"water_table": "Y", "dates": [start], "values": [2.4]},
            {"water_table": "Y", "dates": [start], "values": [8.0]},
            {"water_table": "Y", "method": "Variable", "dates": [start, f"{year}/07/01", f"{year}/10/01"], "values": [2.0, 0.7, 1.6]},
            {"water_table": "Y", "method": "Constant", "dates": [start, f"{year}/06/15"], "values": [1.8, 0.9]}]


REGIME_FOR = {"Cotton": "hot", "CottonGDD": "hot", "PaddyRice": "monsoon", "PaddyRiceGDD": "monsoon", "localpaddy": "monsoon",
              "SugarCane": "monsoon", "Cassava": "monsoon", "Sorghum": "warm", "SorghumGDD": "hot", "Tef": "warm",
              "SoybeanGDD": "hot", "SunflowerGDD": "hot", "SugarBeetGDD": "warm", "TomatoGDD": "hot", "AlfalfaGDD": "warm",
              "WheatLongGDD": "warm", "MaizeGDD": "hot", "MaizeChampionGDD": "hot", "DryBeanGDD": "warm", "PotatoLocalGDD": "warm",
              "HydWheatGDD": "warm", "WheatGDD": "warm", "WheatGDD_1dec": "warm", "BarleyGDD": "warm", "PotatoGDD": "warm",
              "SugarBeetGDD_UK": "warm"}


def scenario(crop="Maize", soil="SandyLoam", regime=None, seed=1, plant_md=(4, 20), year=2001, seasons=1, lead=0,
             irr=None, field=None, fallow=None, gw=None, iwc=None, off_season=False, events=None, crop_kw=None,
             harvest_date=None, soil_spec=None, co2=None, tail=40, wparams=None):
    start, end, pd_ = window(crop, plant_md, year, seasons, lead, tail)
    reg = regime or REGIME_FOR.get(crop, "warm")
    sc = {"start": start, "end": end,
          "weather": synth(seed, reg, start=f"{year - 1}/01/01", days=365 * (seasons + 2) + 30, events=events, params=wparams),
          "crop": {"name": crop, "planting_date": pd_, "harvest_date": harvest_date},
          "soil": soil_spec if soil_spec is not None else {"type": soil},
          "iwc": iwc or {"value": ["FC"]},
          "off_season": off_season}
    if crop_kw:
        sc["crop"]["kw"] = crop_kw
    if irr is not None:
        sc["irr"] = irr
    if field is not None:
        sc["field"] = field
    if fallow is not None:
        sc["fallow"] = fallow
    if gw is not None:
        sc["gw"] = gw
    if co2 is not None:
        sc["co2"] = co2
    return sc


def builtin_scenario(crop, year, plant="05/01", file="tunis_climate.txt", end=None, soil="SandyLoam", **over):
    """scenario on one of the repository's weather files (real Mediterranean / continental sequences)"""
    sc = {"start": f"{year}/{plant}", "end": end or f"{year}/12/31", "weather": {"file": file},
          "crop": {"name": crop, "planting_date": plant, "harvest_date": None}, "soil": {"type": soil}, "iwc": {"value": ["FC"]}, "off_season": False}
    sc.update(over)
    return sc


def storm_events(year, plant_md, amounts=(150, 300, 80)):
    p = dt.date(year, plant_md[0], plant_md[1])
    return [{"date": dstr(p + dt.timedelta(days=10 + 23 * i)), "P": a} for i, a in enumerate(amounts)]


def drought_events(year, plant_md, length=120):
    p = dt.date(year, plant_md[0], plant_md[1])
    return [{"from": dstr(p + dt.timedelta(days=15)), "to": dstr(p + dt.timedelta(days=15 + length)), "P": 0, "ET0": 9}]


TIGHT_SOIL = {"type": "custom", "kw": {"dz": [0.1] * 12, "cn": 70, "rew": 9}, "layers": [[1.2, 0.32, 0.50, 0.55, 4.0, 100]]}


def shallow_pond_cases(rnd, year=2001, crops=("Maize", "Tomato", "Sorghum"), storms=(13, 16, 19, 22, 25, 28)):
    """Bunded field on a slowly draining soil under a developed canopy: dry weather with light showers, then one storm whose pond drains
    over the following days - the sweep of storm sizes makes the pond pass through every depth range (of the order of a day's transpiration
    demand and below) during the first days of submergence, and a second wet spell keeps it ponded for a week."""
    p = dt.date(year, 5, 1)
    out = []
    for i, storm in enumerate(storms):
        ev = [{"from": f"{year}/01/01", "to": f"{year}/12/31", "P": 0, "ET0": 5.0, "Tmin": 18, "Tmax": 30}]
        ev += [{"date": dstr(p + dt.timedelta(days=d)), "P": 3.0} for d in range(0, 170, 6)]
        ev += [{"date": dstr(p + dt.timedelta(days=65)), "P": float(storm)}]
        ev += [{"date": dstr(p + dt.timedelta(days=90 + k)), "P": 9.0 + i} for k in range(7)]
        out.append(scenario(crops[i % len(crops)], seed=rnd.randrange(10 ** 6), plant_md=(5, 1), year=year, soil_spec=TIGHT_SOIL,
                            field={"bunds": True, "z_bund": 0.15, "bund_water": 0.0}, events=ev))
    return out


def diverse(rnd, n, crops=None, soils=None, focus=None):
    """n random valid scenarios mixing all dimensions; `focus` biases some of them"""
    out = []
    crops = crops or CROPS
    soils = soils or SOILS
    for i in range(n):
        crop = rnd.choice(crops)
        year = rnd.choice([2000, 2001, 2003])
        plant_md = rnd.choice([(4, 20), (5, 1), (3, 15), (6, 10)])
        seasons = rnd.choice([1, 1, 1, 2])
        if MATURITY_CD.get(crop, 150) > 250:
            seasons = 1
        lead = rnd.choice([0, 0, 3, 20])
        start, end, _ = window(crop, plant_md, year, seasons, lead)
        if rnd.random() < 0.25:
            key = rnd.choice(sorted(LAYERED_SOILS))
            if focus != "no_restrictive" or key != "restrictive":
                soil_spec = LAYERED_SOILS[key]
            else:
                soil_spec = LAYERED_SOILS["two_layer"]
        else:
            soil_spec = {"type": rnd.choice(soils)}
        nl = len(soil_spec.get("layers", soil_spec.get("texture_layers", [1]))) if soil_spec.get("type") == "custom" else (2 if soil_spec["type"] in ("Paddy", "ac_TunisLocal") else 1)
        irr = rnd.choice(irr_variants(rnd, start, end, plant_md, year))
        field = rnd.choice(field_variants())
        fallow = rnd.choice([None, None, {"mulches": True, "mulch_pct": 100, "f_mulch": 0.5}, {"bunds": True, "z_bund": 0.1}])
        gw = rnd.choice(gw_variants(start, year)) if rnd.random() < 0.3 else None
        iwc = rnd.choice(iwc_variants(nl))
        off = rnd.random() < 0.35
        events = None
        r = rnd.random()
        if r < 0.2:
            events = storm_events(year, plant_md)
        elif r < 0.35:
            events = drought_events(year, plant_md)
        sc = scenario(crop=crop, seed=rnd.randrange(10 ** 6), plant_md=plant_md, year=year, seasons=seasons, lead=lead,
                      irr=irr, field=field, fallow=fallow, gw=gw, iwc=iwc, off_season=off, events=events, soil_spec=soil_spec)
        if not deepenable(sc):
            sc["soil"] = {"type": rnd.choice(soils)}
        out.append(sc)
    return out


def hard_cases(rnd, n=None, year=2001):
    """Scenarios built to reach rarely executed branches of the pipeline (each found useful against an independently seeded change):
    water backing up over an impeding layer on non-uniform grids, bunds removed / lowered with water standing, ponding that starts under a
    canopy, pre-irrigation on a dry start, death during yield formation, a season after a crop failure, start before planting with jumps
    between seasons, binding harvest dates with off-season, rising water table into the root zone, thermal crops with several seasons."""
    import datetime as _dt
    p0 = _dt.date(year, 4, 20)
    wet = [{"date": dstr(p0 + _dt.timedelta(days=70 + k)), "P": 90} for k in range(6)]
    S = scenario
    cases = [
        S("Tomato", seed=rnd.randrange(10 ** 6), soil_spec=LAYERED_SOILS["impeding_uneven"], iwc={"value": ["SAT", "SAT"], "depth_layer": [1, 2]}, events=storm_events(year, (4, 20), (120, 60, 60, 60))),
        S("Maize", seed=rnd.randrange(10 ** 6), soil_spec=LAYERED_SOILS["low_ksat"], iwc={"value": ["SAT", "SAT"], "depth_layer": [1, 2]}, regime="wet"),
        S("PaddyRice", "Paddy", seed=rnd.randrange(10 ** 6), regime="monsoon", field={"bunds": True, "z_bund": 0.2, "bund_water": 100}, off_season=True, seasons=2, iwc={"value": ["SAT", "SAT"], "depth_layer": [1, 2]}),
        S("PaddyRice", "Paddy", seed=rnd.randrange(10 ** 6), regime="monsoon", field={"bunds": True, "z_bund": 0.05, "bund_water": 60}, fallow={"bunds": True, "z_bund": 0.02}, off_season=True, seasons=2, iwc={"value": ["SAT", "SAT"], "depth_layer": [1, 2]}),
        S("Maize", "Clay", seed=rnd.randrange(10 ** 6), field={"bunds": True, "z_bund": 0.25}, events=wet),
        S("Sorghum", "Loam", seed=rnd.randrange(10 ** 6), seasons=2, irr={"method": 4, "kw": {"NetIrrSMT": 75}}, iwc={"value": ["WP"]}),
        S("Maize", "Sand", seed=rnd.randrange(10 ** 6), regime="warm", events=[{"from": dstr(p0 + _dt.timedelta(days=62)), "to": f"{year}/12/31", "P": 0, "ET0": 11, "Tmax": 36, "Tmin": 22}]),
        S("Wheat", "SandyLoam", seed=rnd.randrange(10 ** 6), seasons=3, iwc={"wc_type": "Pct", "value": [8]}, events=[{"from": f"{year}/04/01", "to": f"{year}/09/30", "P": 0, "ET0": 8.5}]),
        S("Sorghum", "Loam", seed=rnd.randrange(10 ** 6), lead=37, seasons=3, irr={"method": 2, "kw": {"IrrInterval": 9, "AppEff": 75, "MaxIrr": 15}}),
        S("Sorghum", "Loam", seed=rnd.randrange(10 ** 6), seasons=2, off_season=True, harvest_date="07/01", irr={"method": 5, "kw": {"depth": 3}}),
        S("Potato", seed=rnd.randrange(10 ** 6), soil_spec=LAYERED_SOILS["three_layer"], iwc={"value": ["WP", "SAT", "FC"], "depth_layer": [1, 2, 3]},
          gw={"water_table": "Y", "method": "Variable", "dates": [f"{year}/04/20", f"{year}/06/20", f"{year}/09/01"], "values": [1.5, 0.3, 1.0]}),
        S("MaizeGDD", "SandyLoam", seed=rnd.randrange(10 ** 6), regime="hot", seasons=2, lead=12, irr={"method": 1, "kw": {"SMT": [70, 70, 70, 0]}}, iwc={"wc_type": "Pct", "value": [40]}),
        S("Cotton", "SiltLoam", seed=rnd.randrange(10 ** 6), regime="hot", irr={"method": 1, "kw": {"SMT": [80] * 4, "AppEff": 70, "MaxIrr": 12}}),
        S("Barley", "Clay", seed=rnd.randrange(10 ** 6), plant_md=(12, 20), year=year - 1, seasons=2, harvest_date="03/10", off_season=True),
    ]
    cases += [
        # net irrigation on contrasting layers with roots in the second layer
        S("Wheat", seed=rnd.randrange(10 ** 6), soil_spec=LAYERED_SOILS["sand_over_clay"], irr={"method": 4, "kw": {"NetIrrSMT": 80}}, seasons=2,
          iwc={"value": ["FC", "FC"], "depth_layer": [1, 2]}, regime="arid"),
        # mild, persistent water stress (leaf expansion restricted, stomata open): harvest-index adjustment at its cap
        builtin_scenario(rnd.choice(["CottonGDD", "Cotton"]), rnd.choice([1984, 1987, 1988]), irr={"method": 1, "kw": {"SMT": [20] * 4, "MaxIrr": 6}}),
        # ponded field whose pond is dried out by evaporation, with mulches / partially wetting irrigation
        S("PaddyRice", "Paddy", seed=rnd.randrange(10 ** 6), regime="warm", field={"bunds": True, "z_bund": 0.1, "mulches": True, "mulch_pct": 80, "f_mulch": 0.7},
          iwc={"value": ["FC", "FC"], "depth_layer": [1, 2]}, seasons=2, off_season=True),
        S("Tomato", "Paddy", seed=rnd.randrange(10 ** 6), regime="warm", field={"bunds": True, "z_bund": 0.08}, irr={"method": 2, "kw": {"IrrInterval": 7, "WetSurf": 30, "AppEff": 75}},
          iwc={"value": ["FC", "FC"], "depth_layer": [1, 2]}),
        S("Quinoa", seed=rnd.randrange(10 ** 6), soil_spec=LAYERED_SOILS["shallow_layers"], iwc={"value": ["FC", "WP"], "depth_layer": [1, 2]}, irr={"method": 1, "kw": {"SMT": [60] * 4, "WetSurf": 40}},
          field={"mulches": True, "mulch_pct": 50, "f_mulch": 0.5}),
    ]
    cases += [
        # parameters of features that are switched off / not applicable, in situations where the feature would matter
        S("Wheat", "Paddy", seed=rnd.randrange(10 ** 6), regime="wet", field={"bunds": False, "z_bund": 0.2, "bund_water": 30}, iwc={"value": ["SAT", "SAT"], "depth_layer": [1, 2]},
          events=storm_events(year, (4, 20), (150, 90, 200)), seasons=2),
        S("Maize", "SiltLoam", seed=rnd.randrange(10 ** 6), irr={"method": 4, "kw": {"NetIrrSMT": 85, "MaxIrr": 5, "MaxIrrSeason": 40}}, iwc={"value": ["WP"]}, seasons=2, off_season=True, lead=8),
        S("Wheat", "SandyLoam", seed=rnd.randrange(10 ** 6), regime="arid", crop_kw={"ETadj": 0}, iwc={"wc_type": "Pct", "value": [40]}, seasons=3),
    ]
    cases += [
        # temperature extremes around flowering (pollination heat / cold stress, hot nights above the crop's upper temperature)
        S("Maize", "Loam", seed=rnd.randrange(10 ** 6), irr={"method": 1, "kw": {"SMT": [70] * 4}},
          events=[{"from": dstr(p0 + _dt.timedelta(days=58)), "to": dstr(p0 + _dt.timedelta(days=80)), "Tmax": 43.5, "Tmin": 31.0}]),
        S("Barley", "SiltLoam", seed=rnd.randrange(10 ** 6), irr={"method": 2, "kw": {"IrrInterval": 8}},
          events=[{"from": dstr(p0 + _dt.timedelta(days=40)), "to": dstr(p0 + _dt.timedelta(days=70)), "Tmax": 9.0, "Tmin": 3.0},
                  {"from": dstr(p0 + _dt.timedelta(days=71)), "to": dstr(p0 + _dt.timedelta(days=85)), "Tmax": 38.0, "Tmin": 19.0}]),
    ]
    cases += [
        # the reverse contrast (fine over coarse): water table standing in the upper layer; net irrigation with roots in the lower layer
        S("Tomato", seed=rnd.randrange(10 ** 6), soil_spec=LAYERED_SOILS["clay_over_sand"], iwc={"value": ["FC", "FC"], "depth_layer": [1, 2]},
          gw={"water_table": "Y", "dates": [f"{year}/04/20"], "values": [0.35]}),
        S("Wheat", seed=rnd.randrange(10 ** 6), soil_spec=LAYERED_SOILS["clay_over_sand"], irr={"method": 4, "kw": {"NetIrrSMT": 70}}, regime="arid",
          iwc={"wc_type": "Pct", "value": [60, 60], "depth_layer": [1, 2]}),
        # ... with a low threshold: the fine top layer is drawn down to its air-dry content while the moist subsoil keeps the root-zone average up
        S("Maize", seed=rnd.randrange(10 ** 6), soil_spec=LAYERED_SOILS["clay_over_sand"], irr={"method": 4, "kw": {"NetIrrSMT": 35}}, regime="hot",
          iwc={"value": ["FC", "FC"], "depth_layer": [1, 2]}),
    ]
    cases += [
        # a winter crop whose seasons span the turn of the year (everything that is fixed per season but tabulated per calendar year)
        S("Wheat", "Loam", seed=rnd.randrange(10 ** 6), plant_md=(10, 15), year=year, seasons=2, irr={"method": 1, "kw": {"SMT": [55] * 4, "AppEff": 85, "WetSurf": 60}}),
    ]
    cases += [
        # reference evapotranspiration at its floor (0.1 mm/day, what prepare_weather clips to) on days with a transpiring canopy
        S("Wheat", "Loam", seed=rnd.randrange(10 ** 6), events=[{"from": dstr(p0 + _dt.timedelta(days=60)), "to": dstr(p0 + _dt.timedelta(days=63)), "ET0": 0.1},
                                                              {"date": dstr(p0 + _dt.timedelta(days=90)), "ET0": 0.1}]),
    ]
    cases += [
        # initial bund water above the bund height (capped at every season start), two seasons without off-season
        S("Tomato", "Paddy", seed=rnd.randrange(10 ** 6), seasons=2, field={"bunds": True, "z_bund": 0.05, "bund_water": 80}, iwc={"value": ["FC", "FC"], "depth_layer": [1, 2]}),
    ]
    cases += [
        # storms on a very permeable top layer over a subsoil of low conductivity and large drainable porosity
        S("Maize", seed=rnd.randrange(10 ** 6), soil_spec=LAYERED_SOILS["sand_over_porous"], iwc={"value": ["FC", "FC"], "depth_layer": [1, 2]},
          events=storm_events(year, (4, 20), (110, 70, 160, 90)) + [{"from": dstr(p0 + _dt.timedelta(days=12)), "to": dstr(p0 + _dt.timedelta(days=30)), "P": 0}]),
        # bunds in the season only, water standing behind them at maturity, the removal day and the next days DRY, then a light shower
        S("PaddyRice", "Paddy", seed=rnd.randrange(10 ** 6), regime="monsoon", field={"bunds": True, "z_bund": 0.2, "bund_water": 100}, off_season=True, seasons=2,
          iwc={"value": ["SAT", "SAT"], "depth_layer": [1, 2]},
          events=[{"from": dstr(p0 + _dt.timedelta(days=99)), "to": dstr(p0 + _dt.timedelta(days=109)), "P": 0}, {"date": dstr(p0 + _dt.timedelta(days=110)), "P": 2.0}]),
        # a long drought (canopy far below the unstressed one), then the field is flooded behind bunds
        S("Maize", "Clay", seed=rnd.randrange(10 ** 6), field={"bunds": True, "z_bund": 0.2}, iwc={"wc_type": "Pct", "value": [50]},
          events=[{"from": dstr(p0), "to": dstr(p0 + _dt.timedelta(days=59)), "P": 0, "ET0": 6.5}] + [{"date": dstr(p0 + _dt.timedelta(days=60 + k)), "P": 150} for k in range(3)]),
    ]
    cases += [
        # low bunds overtopped on four consecutive days under a closed canopy
        S("Maize", "Clay", seed=rnd.randrange(10 ** 6), field={"bunds": True, "z_bund": 0.05}, events=[{"date": dstr(p0 + _dt.timedelta(days=70 + k)), "P": 120} for k in range(4)]),
        # a crop that dies of drought while a (far too small) daily irrigation is still being applied
        S("Maize", "SandyLoam", seed=rnd.randrange(10 ** 6), regime="hot", iwc={"wc_type": "Pct", "value": [45]}, seasons=2, irr={"method": 5, "kw": {"depth": 1, "AppEff": 80}},
          events=[{"from": f"{year}/01/01", "to": f"{year + 1}/12/31", "P": 0, "ET0": 8.0}]),
    ]
    cases += [
        # a cold snap (transpiration reduced by cold stress) together with a storm that floods a bunded field under a developed canopy
        S("Maize", "Clay", seed=rnd.randrange(10 ** 6), field={"bunds": True, "z_bund": 0.15},
          events=[{"from": dstr(p0 + _dt.timedelta(days=58)), "to": dstr(p0 + _dt.timedelta(days=66)), "Tmax": 13.0, "Tmin": 5.0}] + [{"date": dstr(p0 + _dt.timedelta(days=60 + k)), "P": 80} for k in range(2)]),
    ]
    # shallow ponds behind bunds under a canopy (pond of the order of a day's transpiration demand during the first days of submergence)
    cases += shallow_pond_cases(rnd, year, crops=("Maize", "Maize", "Tomato"), storms=(13, 22, 25))
    rnd.shuffle(cases)
    return cases if n is None else cases[:n]


# ------------------------------------------------------------------------------------------------------------------------------------
# Pairwise (2-way) covering array over the configuration dimensions.  Every independently written change that the hand-made scenario sets
# missed needed a *pair* of settings that no scenario combined (bund parameters with bunds off x two seasons, fallow mulches x off-season days,
# constant-depth irrigation x sliced execution, a thermal crop x year-to-year weather differences, ...): the array makes every pair of
# levels of every two dimensions occur in at least one scenario.
# ------------------------------------------------------------------------------------------------------------------------------------
def _pw_factors():
    F = {}
    F["crop"] = ["Maize", "Wheat", "Tomato", "Potato", "Default", "MaizeGDD", "WheatGDD", "SunflowerGDD", "WheatSwitch", "PaddyRice"]
    F["soil"] = ["SandyLoam", "Clay", "Sand", "Paddy", "clay_over_sand", "sand_over_clay", "sand_over_porous", "tight", "impeding_uneven", "shallow_layers"]
    F["irr"] = ["none", "smt_stage", "smt_cap", "smt_100", "int1", "int7_eff", "sched_out", "net_low", "net_high_cap", "const_cap", "const_zero"]
    F["field"] = ["none", "mulch", "mulch_full", "bunds_low", "bunds_high", "bunds_exact", "bunds_off_params", "sr_inhb", "cn_adj", "bund_water_over"]
    F["fallow"] = ["none", "mulch", "bunds", "cn_adj"]
    F["gw"] = ["none", "surface", "shallow", "near_zmax", "far", "rising", "multi_const"]
    F["iwc"] = ["FC", "WP", "SAT", "pct40", "pct_depth_below", "pct_depth"]
    F["off"] = [False, True]
    F["lead"] = [0, 25]
    F["seasons"] = [1, 2, 3]
    F["plant"] = ["spring", "winter"]
    F["wx"] = ["plain", "storms", "drought", "heat_flowering", "cold_start", "et0_floor", "yr_amp"]
    F["co2"] = ["default", "const_high", "const_2000", "sparse"]
    return F


def pairwise_rows(seed=0, max_rows=400):
    """greedy covering array (AETG-style): rows as dicts factor -> level; deterministic for a seed"""
    rnd = random.Random(4242 + int(seed))
    F = _pw_factors()
    names = sorted(F)
    uncovered = set()
    for i, a in enumerate(names):
        for b in names[i + 1:]:
            for x in F[a]:
                for y in F[b]:
                    uncovered.add((a, x, b, y))
    rows = []
    while uncovered and len(rows) < max_rows:
        best, best_gain = None, -1
        for _ in range(60):
            # seed the candidate with one uncovered pair, fill the rest at random
            a, x, b, y = rnd.choice(sorted(uncovered)) if rnd.random() < 0.9 else (names[0], F[names[0]][0], names[1], F[names[1]][0])
            cand = {n: rnd.choice(F[n]) for n in names}
            cand[a], cand[b] = x, y
            gain = sum(1 for i, p in enumerate(names) for q in names[i + 1:] if (p, cand[p], q, cand[q]) in uncovered)
            if gain > best_gain:
                best, best_gain = cand, gain
        rows.append(best)
        for i, p in enumerate(names):
            for q in names[i + 1:]:
                uncovered.discard((p, best[p], q, best[q]))
    return rows


def pairwise_scenario(row, seed, year=2001):
    """scenario dictionary of a covering-array row (levels that are invalid together are repaired to the nearest valid one)"""
    rnd = random.Random(seed)
    crop, kw = row["crop"], {}
    crop_kw = None
    if crop == "WheatSwitch":
        crop, crop_kw = "Wheat", {"SwitchGDD": 1}
    thermal = crop in GDD_CROPS or crop_kw is not None
    winter = row["plant"] == "winter" and crop in ("Wheat", "Default") and crop_kw is None
    plant_md = (10, 15) if winter else (4, 20)
    seasons = row["seasons"] if MATURITY_CD.get(crop, 150) < 250 else 1
    p0 = dt.date(year, *plant_md)
    soil_spec = None
    nl = 1
    s = row["soil"]
    if s in LAYERED_SOILS:
        soil_spec = LAYERED_SOILS[s]
        nl = len(soil_spec.get("layers", soil_spec.get("texture_layers", [])))
    elif s == "tight":
        soil_spec = TIGHT_SOIL
    elif s == "Paddy":
        nl = 2
    sched = [[dstr(p0 + dt.timedelta(days=d)), a] for d, a in ((5, 20), (20, 35.5), (41, 12), (75, 60), (-10, 15), (400, 25), (365 + 30, 18))]
    irr = {"none": None, "smt_stage": {"method": 1, "kw": {"SMT": [40, 60, 75, 30]}},
           "smt_cap": {"method": 1, "kw": {"SMT": [80] * 4, "MaxIrr": 12, "MaxIrrSeason": 90, "AppEff": 70}},
           "smt_100": {"method": 1, "kw": {"SMT": [100] * 4, "MaxIrr": 8}},
           "int1": {"method": 2, "kw": {"IrrInterval": 1, "MaxIrr": 3}},
           "int7_eff": {"method": 2, "kw": {"IrrInterval": 7, "AppEff": 85, "WetSurf": 40}},
           "sched_out": {"method": 3, "schedule": sched, "kw": {"MaxIrr": 30, "AppEff": 90}},
           "net_low": {"method": 4, "kw": {"NetIrrSMT": 35}}, "net_high_cap": {"method": 4, "kw": {"NetIrrSMT": 80, "MaxIrr": 5, "MaxIrrSeason": 40}},
           "const_cap": {"method": 5, "kw": {"depth": 6, "MaxIrrSeason": 180, "AppEff": 75}}, "const_zero": {"method": 5, "kw": {"depth": 0}}}[row["irr"]]
    field = {"none": None, "mulch": {"mulches": True, "mulch_pct": 70, "f_mulch": 0.6}, "bunds_low": {"bunds": True, "z_bund": 0.03, "bund_water": 10},
             "mulch_full": {"mulches": True, "mulch_pct": 100, "f_mulch": 1.0}, "bunds_exact": {"bunds": True, "z_bund": 0.05, "bund_water": 50},
             "bunds_high": {"bunds": True, "z_bund": 0.2, "bund_water": 60}, "bunds_off_params": {"bunds": False, "z_bund": 0.2, "bund_water": 30},
             "sr_inhb": {"sr_inhb": True}, "cn_adj": {"curve_number_adj": True, "curve_number_adj_pct": 20},
             "bund_water_over": {"bunds": True, "z_bund": 0.05, "bund_water": 80}}[row["field"]]
    fallow = {"none": None, "mulch": {"mulches": True, "mulch_pct": 40, "f_mulch": 0.5}, "bunds": {"bunds": True, "z_bund": 0.05, "bund_water": 20},
              "cn_adj": {"curve_number_adj": True, "curve_number_adj_pct": -25}}[row["fallow"]]
    z = zmax_of(crop, crop_kw)
    d0 = dstr(p0)
    gw = {"none": None, "shallow": {"water_table": "Y", "dates": [d0], "values": [0.8]}, "surface": {"water_table": "Y", "dates": [d0], "values": [0.04]},
          "near_zmax": {"water_table": "Y", "dates": [d0], "values": [round(max(z - 0.02, 0.4), 2)]},
          "far": {"water_table": "Y", "dates": [d0], "values": [8.0]},
          "rising": {"water_table": "Y", "method": "Variable", "dates": [dstr(p0 - dt.timedelta(days=40)), dstr(p0 + dt.timedelta(days=70)), dstr(p0 + dt.timedelta(days=900))], "values": [2.4, 0.7, 1.9]},
          "multi_const": {"water_table": "Y", "method": "Constant", "dates": [dstr(p0 - dt.timedelta(days=50)), dstr(p0 + dt.timedelta(days=40)), dstr(p0 + dt.timedelta(days=100))], "values": [1.2, 2.0, 0.9]}}[row["gw"]]
    lay = list(range(1, nl + 1))
    iwc = {"FC": {"value": ["FC"] * nl, "depth_layer": lay}, "WP": {"value": ["WP"] * nl, "depth_layer": lay}, "SAT": {"value": ["SAT"] * nl, "depth_layer": lay},
           "pct40": {"wc_type": "Pct", "value": [40] * nl, "depth_layer": lay},
           "pct_depth_below": {"wc_type": "Pct", "method": "Depth", "depth_layer": [0.2, 0.8, 3.5], "value": [70, 40, 55]},
           "pct_depth": {"wc_type": "Pct", "method": "Depth", "depth_layer": [0.15, 0.6, 1.1], "value": [85, 35, 60]}}[row["iwc"]]
    events, wparams = None, None
    flower = {"Maize": 66, "MaizeGDD": 66, "Wheat": 127, "WheatGDD": 127, "Tomato": 43, "SunflowerGDD": 60, "Potato": 46, "Default": 50, "PaddyRice": 65}.get(crop, 60)
    if row["wx"] == "storms":
        events = storm_events(year, plant_md, (60, 140, 35, 90))
    elif row["wx"] == "drought":
        events = drought_events(year, plant_md, 90)
    elif row["wx"] == "heat_flowering":
        events = [{"from": dstr(dt.date(year + k, *plant_md) + dt.timedelta(days=flower - 8)), "to": dstr(dt.date(year + k, *plant_md) + dt.timedelta(days=flower + 14)), "Tmax": 41.5, "Tmin": 27.0} for k in range(seasons)]
    elif row["wx"] == "cold_start":
        events = [{"from": dstr(dt.date(year + k, *plant_md)), "to": dstr(dt.date(year + k, *plant_md) + dt.timedelta(days=18)), "Tmax": 4.0, "Tmin": -2.0} for k in range(seasons)]
    elif row["wx"] == "et0_floor":
        events = [{"from": dstr(p0 + dt.timedelta(days=55)), "to": dstr(p0 + dt.timedelta(days=58)), "ET0": 0.1}, {"date": dstr(p0 + dt.timedelta(days=85)), "ET0": 0.1}]
    elif row["wx"] == "yr_amp":
        wparams = {"yr_amp": 3.0}
    co2 = {"default": None, "const_high": {"constant_conc": True, "current_concentration": 552.0}, "const_2000": {"constant_conc": True, "current_concentration": 2000.0},
           "sparse": {"co2_data": [[1990, 355.0], [2000, 369.5], [2003, 378.0], [2010, 390.0]]}}[row["co2"]]
    harvest = None
    regime = "hot" if thermal else None
    sc = scenario(crop, s if soil_spec is None else "SandyLoam", regime=regime, seed=rnd.randrange(10 ** 6), plant_md=plant_md, year=year, seasons=seasons,
                  lead=row["lead"], irr=irr, field=field, fallow=fallow, gw=gw, iwc=iwc, off_season=row["off"], events=events, crop_kw=crop_kw,
                  harvest_date=harvest, soil_spec=soil_spec, co2=co2, wparams=wparams)
    sc["_pairwise"] = {k: (v if not isinstance(v, bool) else int(v)) for k, v in row.items()}
    return sc


def pairwise_cases(seed=0, part=None, parts=None, year=2001):
    rows = pairwise_rows(0)                      # ONE array (the seed only varies the weather / random details of its scenarios)
    out = []
    for i, r in enumerate(rows):
        if parts and (i % parts) != (part % parts):
            continue
        sc = pairwise_scenario(r, 77000 + 131 * i + int(seed), year)
        if deepenable(sc):
            out.append(sc)
    return out
