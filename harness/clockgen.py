"""The window lattice of MC_Clock (DESIGN 2.4) - one source for the TLC instance and for the replay into the code."""
import datetime as dt
import random

import scenlib as L


def md(d):
    return (d.month, d.day)


def lattice(tier, seed):
    rnd = random.Random(700 + seed)
    out = []
    years = [1999, 2003]            # 1999 -> 2000 (leap), 2003 -> 2004 (leap)
    plants = [(1, 1), (2, 28), (3, 1), (6, 15), (12, 25), (12, 31)]
    mats = [15, 40, 80] if tier == "thorough" else [15, 40]
    for y in years:
        for pm in plants:
            for mat in mats:
                p = dt.date(y, pm[0], pm[1])
                starts = [p - dt.timedelta(days=3), p, p + dt.timedelta(days=3), dt.date(y, 1, 1), p - dt.timedelta(days=200)]
                for s in starts:
                    ends = [p + dt.timedelta(days=mat // 2), p + dt.timedelta(days=1), p + dt.timedelta(days=mat + 45),
                            dt.date(y + 1, pm[0], pm[1]), dt.date(y + 1, pm[0], pm[1]) + dt.timedelta(days=1),
                            p + dt.timedelta(days=365 * 2 + mat + 50)]
                    for e in ends:
                        if e <= s + dt.timedelta(days=1):
                            continue
                        for harv in ("default", "binding"):
                            for off in (False, True):
                                hd = None
                                if harv == "binding":
                                    h = dt.date(1990, pm[0], pm[1]) + dt.timedelta(days=max(2, mat - 4))
                                    hd = (h.month, h.day)
                                out.append({"start": (s.year, s.month, s.day), "end": (e.year, e.month, e.day), "plant": pm,
                                            "harv": hd, "maturity": mat, "thermal": False, "off": off, "die": False})
    rnd.shuffle(out)
    return out


def tla_window(w, thermal=None, die=None):
    h = "<<>>" if w["harv"] is None else f"<<{w['harv'][0]},{w['harv'][1]}>>"
    th = w["thermal"] if thermal is None else thermal
    di = w["die"] if die is None else die
    return (f"[start |-> <<{w['start'][0]},{w['start'][1]},{w['start'][2]}>>, end |-> <<{w['end'][0]},{w['end'][1]},{w['end'][2]}>>, "
            f"plant |-> <<{w['plant'][0]},{w['plant'][1]}>>, harv |-> {h}, maturity |-> {w['maturity']}, "
            f"thermal |-> {'TRUE' if th else 'FALSE'}, off |-> {'TRUE' if w['off'] else 'FALSE'}, die |-> {'TRUE' if di else 'FALSE'}]")


INVS = ["TypeOK", "DapCounts", "MaturityFirstDay", "SeasonEndCause", "StatsOrdered", "StatsNoSkip", "SeasonsConsecutive",
        "FinishCause", "VisibleIffFinished", "DoneMeansFinished"]
PROPS = ["Chrono", "AtMostOnce", "NoSkip", "HarvestOnlyOnce", "Termination"]


def mc_text(name, windows_tla, callsizes, slice_inv=False):
    tla = f"---- MODULE {name} ----\nEXTENDS AquaClock\ncWindows == {{\n  " + ",\n  ".join(windows_tla) + "\n}\n====\n"
    cfg = "CONSTANTS\n Windows <- cWindows\n CallSizes = {" + ", ".join(str(k) for k in callsizes) + "}\nSPECIFICATION Spec\n"
    for i in INVS + (["SliceInvariant"] if slice_inv else []):
        cfg += f"INVARIANT {i}\n"
    for p in PROPS:
        cfg += f"PROPERTY {p}\n"
    cfg += "CHECK_DEADLOCK FALSE\n"
    return tla, cfg


def fast_kw(mat):
    return dict(EmergenceCD=2, MaxRootingCD=max(4, mat // 2), SenescenceCD=max(6, int(mat * 0.8)), MaturityCD=mat,
                HIstartCD=max(4, int(mat * 0.45)), FloweringCD=max(2, int(mat * 0.2)), YldFormCD=max(3, int(mat * 0.4)))


def dstr3(t):
    return f"{t[0]}/{t[1]:02d}/{t[2]:02d}"


def scenario_of(w, seed=1, irr=None):
    sy = w["start"][0]
    ey = w["end"][0]
    sc = {"start": dstr3(w["start"]), "end": dstr3(w["end"]),
          "weather": L.synth(seed, "warm", start=f"{sy - 1}/01/01", days=365 * (ey - sy + 3)),
          "crop": {"name": "Wheat", "planting_date": f"{w['plant'][0]:02d}/{w['plant'][1]:02d}",
                   "harvest_date": None if w["harv"] is None else f"{w['harv'][0]:02d}/{w['harv'][1]:02d}",
                   "kw": fast_kw(w["maturity"])},
          "soil": {"type": "SandyLoam"}, "iwc": {"value": ["FC"]}, "off_season": bool(w["off"])}
    if irr:
        sc["irr"] = irr
    return sc
