"""C15 - weather is bound by date and by column name."""
import itertools
import random

import scenlib as L
from checks import equivbase

PROP = "C15"


def run(tier, seed):
    rnd = random.Random(1500 + seed)
    S = L.scenario
    import clockgen as G
    w = {"start": (2000, 2, 20), "end": (2000, 4, 15), "plant": (3, 1), "harv": None, "maturity": 20, "thermal": False, "off": True, "die": False}
    fast = G.scenario_of(w, seed=seed + 1, irr={"method": 1, "kw": {"SMT": [70] * 4}})
    fulls = [S("Maize", "SandyLoam", seed=seed + 2, irr={"method": 2}, lead=10, off_season=True),
             S("WheatGDD", "Loam", seed=seed + 3, regime="warm", seasons=2),
             S("Wheat", "Clay", seed=seed + 4, crop_kw={"SwitchGDD": 1})]
    perms = list(itertools.permutations(range(5)))
    extras = [[], [["Station", 0, "str"]], [["Wind", 99, "num"]], [["Station", 2, "str"], ["Wind", 4, "num"]],
              [["SnowDepth", 99, "nan"]], [["Flag", 1, "none"], ["SnowDepth", 3, "nan"]],
              [[" ReferenceET", 0, "num"]], [["Precipitation ", 99, "num"], ["mintemp", 2, "num"]]]
    indexes = ["range", "shifted", "datetime", "labels", "datetime_shifted", "datetime_noon", "datetime_other", "year", "const"]
    pads = [{}, {"pad_before": 37}, {"pad_before": 400, "pad_after": 200}, {"pad_sparse": True}, {"pad_before": 300, "gap_before": "@start"}]
    space = [(p, e, i, d) for p in perms for e in extras for i in indexes for d in pads]
    jobs, pairs = [], []

    def add(sc, combos):
        a = len(jobs)
        jobs.append({"kind": "plain", "scenario": sc})
        for p, e, i, d in combos:
            b = dict(sc)
            tr = {"perm": list(p), "extra_cols": e, "index": i}
            tr.update({k: (sc["start"] if v == "@start" else v) for k, v in d.items()})
            b["_wx"] = tr
            jobs.append({"kind": "plain", "scenario": b})
            pairs.append({"a": a, "b": len(jobs) - 1, "rule": "identity", "scenario": b,
                          "label": {"crop": sc["crop"]["name"], "perm": list(p), "extra": [x[0] for x in e], "index": i, "pad": d}})
    if tier == "thorough":
        # the full product is 120 x 6 x 9 x 5 = 32400: every column permutation with 30 random settings of the other dimensions, and every
        # setting of the other dimensions (6 x 9 x 5 = 270) with 4 random permutations, on the short window
        others = [(e, i, d) for e in extras for i in indexes for d in pads]
        sample = [(p, e, i, d) for p in perms for (e, i, d) in rnd.sample(others, 30)] + [(p, e, i, d) for (e, i, d) in others for p in rnd.sample(perms, 4)]
        add(fast, sample)
        for sc in fulls:
            add(sc, rnd.sample(space, 40))
    else:
        # covering sample: every permutation position, every extra, index kind and padding at least once
        combos = [(perms[0], extras[6], "range", pads[0]), (perms[4], extras[7], "shifted", pads[1]), (perms[0], extras[0], "year", pads[1]), (perms[2], extras[0], "const", pads[2]), (perms[0], extras[0], "range", pads[3]), (perms[5], extras[1], "shifted", pads[4]), (perms[0], extras[0], "shifted", pads[1]), (perms[0], extras[1], "datetime", pads[0]), (perms[0], extras[2], "labels", pads[2]),
                  (perms[0], extras[4], "range", pads[0]), (perms[7], extras[5], "shifted", pads[1])]
        combos += rnd.sample(space, 30)
        add(fast, combos)
        for sc in fulls[:2]:
            add(sc, rnd.sample(space, 4))
        # thermal-time crops read the temperatures a second time (crop calendar): a date-like index that is not the Date column
        for sc in fulls[1:3]:
            add(sc, [(perms[0], extras[0], "datetime_shifted", pads[0]), (perms[3], extras[2], "datetime_noon", pads[1]), (perms[0], extras[0], "datetime_other", pads[0])])
    # traced runs: on every simulated day the four values the step works with are those of the user's record of that date (Trace!DayBeginWeatherC)
    from checks import tracebase
    hot = [{"from": f"{y}/06/15", "to": f"{y}/07/25", "Tmax": 43.0, "Tmin": 31.5} for y in (2001, 2002, 2003)]
    traced = [S("MaizeGDD", "Loam", seed=seed + 40, seasons=3, regime="hot", events=hot), S("WheatGDD", "SandyLoam", seed=seed + 41, seasons=2, regime="warm", off_season=True, lead=15),
              S("Tomato", "Clay", seed=seed + 42, seasons=2, events=hot)]
    rc1 = tracebase.trace_check(PROP, tier, seed, traced, [], pairwise=(tier == "thorough"), level="exploration")
    rc2 = equivbase.equiv_check(PROP, tier, seed, jobs, pairs, level="exploration", merge=True,
                                 rule_text="C15: weather-table transformations (column permutation x extra columns x index kind x extra rows outside the window) "
                                           "vs the canonical table, rule identity", extra={"transformation_space": len(space), "exhaustive": False})
    return 1 if (rc1 or rc2) else 0


def replay(path):
    return equivbase.replay_pair(path, PROP)
