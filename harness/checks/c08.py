"""C08 - seasons are independent when the off-season is not simulated."""
import datetime as dt
import random

import scenlib as L
from checks import equivbase

PROP = "C08"


def bases(tier, seed):
    rnd = random.Random(800 + seed)
    S = L.scenario
    sched = [["2001/05/01", 30], ["2001/06/10", 40], ["2002/05/05", 25], ["2003/06/01", 35], ["2002/07/01", 20]]
    irrs = [{"method": 0}, {"method": 1, "kw": {"SMT": [60, 70, 70, 50]}}, {"method": 2, "kw": {"IrrInterval": 6}},
            {"method": 3, "schedule": sched}, {"method": 4, "kw": {"NetIrrSMT": 75}}, {"method": 5, "kw": {"depth": 4, "MaxIrrSeason": 200}}]
    out = []
    crops = ["Maize", "Wheat", "Tomato", "Sorghum", "Barley", "Potato"]
    for i, irr in enumerate(irrs):
        out.append(S(crops[i], rnd.choice(["SandyLoam", "Loam", "ClayLoam", "Sand"]), seed=seed + i, seasons=3, irr=irr,
                     iwc={"value": ["WP"]} if irr["method"] in (4, 1) else {"wc_type": "Pct", "value": [60]}))
    # thermal crop: the harvest date is stated explicitly (an unset one is derived from the first season of the run = a different input)
    out.append(S("MaizeGDD", "SandyLoam", seed=seed + 10, seasons=3, regime="hot", harvest_date="11/25", irr={"method": 4, "kw": {"NetIrrSMT": 60}}, iwc={"value": ["WP"]}))
    # thermal crops under year-to-year temperature differences (every season's calendar in days is recomputed from that season's weather):
    # the repository's Champion series, and a synthetic series with a temperature anomaly per year; heat at flowering in the later seasons
    gb = L.builtin_scenario("MaizeGDD", 1985, plant="05/01", file="champion_climate.txt", end="1987/12/30")
    gb["crop"]["harvest_date"] = "11/15"
    out.append(gb)
    out.append(S("SunflowerGDD", "Loam", seed=seed + 13, seasons=3, regime="hot", harvest_date="10/30", wparams={"yr_amp": 3.0},
                 events=[{"from": "2002/06/10", "to": "2002/07/20", "Tmax": 41.0, "Tmin": 27.0}, {"from": "2003/06/10", "to": "2003/07/20", "Tmax": 40.0, "Tmin": 26.0}]))
    # thresholds that differ between the first and the last growth stage, with a day-1 depletion between the two
    out.append(S("Maize", "SandyLoam", seed=seed + 20, seasons=3, irr={"method": 1, "kw": {"SMT": [80, 60, 60, 20]}}, iwc={"wc_type": "Pct", "value": [50]}))
    # a window that starts AFTER the planting day of its first calendar year (the first season is sown the year after the start)
    late = S("Barley", "Loam", seed=seed + 19, seasons=3, year=2002)
    late["start"] = "2001/04/25"
    out.append(late)
    # each growing-degree-day method with nights above the crop's upper temperature (the thermal calendar of a later season is recomputed by other code
    # than the first season's)
    for gm in (1, 2, 3):
        out.append(S("MaizeGDD", "Loam", seed=seed + 15 + gm, seasons=3, regime="hot", harvest_date="11/25", crop_kw={"GDDmethod": gm}, wparams={"yr_amp": 2.5},
                     events=[{"from": f"{y}/06/20", "to": f"{y}/07/25", "Tmin": 32.5, "Tmax": 44.0} for y in (2001, 2002, 2003)]))
    out.append(S("Barley", "Loam", seed=seed + 14, seasons=4, co2={"co2_data": [[1990, 355.0], [2001, 371.0], [2002, 384.0], [2003, 384.0], [2004, 384.0], [2010, 395.0]]}))
    out.append(S("Barley", "SiltLoam", seed=seed + 11, seasons=3, field={"bunds": True, "z_bund": 0.1, "bund_water": 30}, irr={"method": 2}))
    out.append(S("Wheat", "Clay", seed=seed + 12, seasons=3, gw={"water_table": "Y", "dates": ["2001/04/20"], "values": [1.4]}, field={"mulches": True, "mulch_pct": 60, "f_mulch": 0.5}))
    # a season that follows a crop failure (severe early drought kills the crop of one season only)
    for j, (crop, soil) in enumerate([("Wheat", "SandyLoam"), ("Maize", "Sand"), ("Barley", "LoamySand")]):
        out.append(S(crop, soil, seed=seed + 30 + j, seasons=3, regime="warm", iwc={"wc_type": "Pct", "value": [8]},
                     events=[{"from": "2001/04/01", "to": "2001/09/30", "P": 0, "ET0": 8.5}] + ([{"from": "2002/04/20", "to": "2002/08/30", "P": 0, "ET0": 9}] if j == 1 else [])))
    if tier == "thorough":
        for j in range(70):
            crop = rnd.choice([c for c in L.CAL_CROPS if L.MATURITY_CD[c] < 200])
            out.append(S(crop, rnd.choice(L.SOILS), seed=rnd.randrange(10 ** 6), seasons=rnd.choice([2, 3, 4]), irr=rnd.choice(irrs),
                         iwc=rnd.choice([{"value": ["WP"]}, {"wc_type": "Pct", "value": [40]}, None]),
                         field=rnd.choice(L.field_variants()), events=rnd.choice([None, L.storm_events(2001, (4, 20))]),
                         regime=rnd.choice(["warm", "arid"])))
    return out


def run(tier, seed):
    from checks import tracebase
    bs = bases(tier, seed)
    # (a) the multi-season runs themselves, traced: at every season start the state must be back at its initial values (Trace!Reset clauses)
    rc1 = tracebase.trace_check(PROP, tier, seed, bs if tier == "quick" else bs[:60], [])
    jobs, pairs = [], []
    for sc in bs:
        a = len(jobs)
        jobs.append({"kind": "plain", "scenario": sc})
        y0 = int(sc["start"][:4])
        pm = sc["crop"]["planting_date"]
        nseasons = int(sc["end"][:4]) - y0 + 1
        ks = range(1, nseasons) if tier == "thorough" else [1, nseasons - 1]
        for k in sorted(set(ks)):
            b = dict(sc)
            b["start"] = f"{y0 + k}/{pm}"
            if k < nseasons - 1:
                nxt = dt.date(y0 + k + 1, int(pm[:2]), int(pm[3:])) - dt.timedelta(days=1)
                b["end"] = L.dstr(nxt)
            jobs.append({"kind": "plain", "scenario": b})
            pairs.append({"a": a, "b": len(jobs) - 1, "rule": "seasonOffset", "label": {"crop": sc["crop"]["name"], "irr": (sc.get("irr") or {}).get("method", 0), "k": k,
                                                                                       "extras": [x for x in ("field", "gw") if sc.get(x)]}, "scenario": sc})
    rc2 = equivbase.equiv_check(PROP, tier, seed, jobs, pairs, mcs=[("MC_Clock1.tla", "MC_ClockQ.cfg" if tier == "quick" else "MC_Clock1.cfg", 1800), ("AquaSeasons.tla", "MC_Seasons.cfg", 600)]
                                + ([("AquaSeasons.tla", "MC_Seasons_k3.cfg", 900)] if tier == "thorough" else []),
                                rule_text="C08: season k of a multi-season run vs a fresh single-season run started on that season's planting date "
                                          "(alignment by date, Equiv rule seasonOffset); crops converted with SwitchGDD are excluded by design", merge=True)
    return 1 if (rc1 or rc2) else 0


def replay(path):
    return equivbase.replay_pair(path, PROP)
