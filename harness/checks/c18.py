"""C18 - soil profile and initial water content are built as specified."""
import json
import os
import random
import shutil
import subprocess
import time

import common as C
import scenlib as L
import soildoc as SD
import tlc
from checks import tracebase

PROP = "C18"


def spec_final_states(configs):
    """let TLC run SoilBuild on the given configurations and export the finished profiles"""
    lits = []
    for c in configs:
        lits.append("[dz |-> <<%s>>, layers |-> <<%s>>, zmax |-> %d]" % (", ".join(map(str, c["dz"])), ", ".join(map(str, c["layers"])), c["zmax"]))
    tla = "---- MODULE MC_SoilGen ----\nEXTENDS SoilBuild\ncConfigs == {\n " + ",\n ".join(lits) + "\n}\nASSUME \\A c \\in cConfigs : Deepenable(c) /\\ LayersFit(c)\n====\n"
    cfg = "CONSTANTS\n Configs <- cConfigs\nSPECIFICATION Spec\nINVARIANT AtDone\nINVARIANT Export\nPROPERTY LayerStable\nPROPERTY OnlyGrows\nPROPERTY Termination\nCHECK_DEADLOCK FALSE\n"
    wd = tlc.scratch("verif_soil_")
    try:
        for f in os.listdir(tlc.SPEC_DIR):
            if f.endswith(".tla"):
                os.symlink(os.path.join(tlc.SPEC_DIR, f), os.path.join(wd, f))
        open(os.path.join(wd, "MC_SoilGen.tla"), "w").write(tla)
        open(os.path.join(wd, "MC_SoilGen.cfg"), "w").write(cfg)
        cmd = tlc._java("4g") + ["-workers", "1", "-metadir", os.path.join(wd, "m"), "-noGenerateSpecTE", "-config", "MC_SoilGen.cfg", "MC_SoilGen.tla"]
        p = subprocess.run(cmd, cwd=wd, capture_output=True, text=True, timeout=1200)
        out = p.stdout + p.stderr
        st = tlc.parse_mc_output(out)
        if st["violated"] or st["fatal"] or "Model checking completed" not in out:
            raise tlc.TLCError("SoilBuild instance failed:\n" + out[-3000:])
        finals = {}
        for line in out.splitlines():
            line = line.strip()
            if line.startswith('"[\\"SOIL\\"'):
                v = json.loads(json.loads(line))
                key = json.dumps(v[1], sort_keys=True)
                finals.setdefault(key, []).append({"dz": v[2], "layer": v[3], "steps": v[4]})
        return finals, st
    finally:
        shutil.rmtree(wd, ignore_errors=True)


def gen_configs(rnd, n):
    out = []
    seen = set()
    choices = [5, 10, 15, 20, 25, 30, 40]
    while len(out) < n:
        k = rnd.randrange(1, 8)
        dz = [rnd.choice(choices) for _ in range(k)] if rnd.random() < 0.7 else [rnd.choice([10, 10, 15, 20])] * rnd.randrange(4, 13)
        tot = sum(dz)
        nl = rnd.choice([1, 2, 3])
        cuts = sorted(rnd.sample(range(1, len(dz)), min(nl - 1, len(dz) - 1))) if len(dz) > 1 else []
        layers, prev = [], 0
        for c in cuts:
            b = sum(dz[:c])
            layers.append(b - prev)
            prev = b
        lastcut = cuts[-1] if cuts else 0
        if rnd.random() < 0.6 or len(dz) - lastcut < 2:
            layers.append(400)
        else:        # sometimes the declared layers stop above the bottom of the grid (on a compartment boundary)
            stop = rnd.randrange(lastcut + 1, len(dz))
            layers.append(sum(dz[lastcut:stop]))
        zmax = rnd.choice([30, 50, 100, 130, 150, 170, 180, 200, 230, 300])
        reach = sum(d if d >= 25 else (d + 10 if d + 10 >= 25 else (d + 20 if d + 20 >= 25 else d + 30)) for d in dz)
        if reach <= zmax + 10:        # strictly deeper than Zmax + 10 cm: at the tie the code's floating-point loop test may demand one more step
            continue
        c = {"dz": dz, "layers": layers, "zmax": zmax}
        key = json.dumps(c, sort_keys=True)
        if key in seen:
            continue
        seen.add(key)
        out.append(c)
    return out


def doc_scenarios(tier, seed):
    rnd = random.Random(1800 + seed)
    S = L.scenario
    scs = []
    # all 15 built-in soils x a shallow and a deep-rooted crop
    for soil in L.SOILS:
        nl = 2 if soil in ("Paddy", "ac_TunisLocal") else 1
        for crop in (["Tef", "Maize", "AlfalfaGDD"] if tier == "thorough" else [rnd.choice(["Tef", "Wheat"]), rnd.choice(["Maize", "AlfalfaGDD"])]):
            iw = rnd.choice(L.iwc_variants(nl))
            scs.append(S(crop, soil, seed=1, iwc=iw))
        if nl >= 2:
            for iw in L.iwc_variants(nl)[6:]:
                scs.append(S("Wheat", soil, seed=1, iwc=iw))
    for key, spec in L.LAYERED_SOILS.items():
        nl = len(spec.get("layers", spec.get("texture_layers", [])))
        vs = L.iwc_variants(nl)
        for iw in (vs if tier == "thorough" else vs[:3] + vs[6:]):
            scs.append(S(rnd.choice(["Wheat", "Cotton", "Potato"]), seed=1, soil_spec=spec, iwc=iw))
        scs.append(S("Sorghum", seed=1, soil_spec=spec, iwc={"wc_type": "Num", "method": "Depth", "depth_layer": [0.1, 0.45, 1.0, 1.7], "value": [0.12, 0.3, 0.22, 0.35]}))
        scs.append(S("Barley", seed=1, soil_spec=spec, iwc={"wc_type": "Num", "value": [0.2] * nl, "depth_layer": list(range(1, nl + 1))}))
    # percentages of TAW under a shallow water table (the field capacity the request refers to is the layer's, not the one adjusted for the table),
    # and layer properties with more than three decimals
    # (the table lies BELOW the profile - 1.6 m for wheat, 1.2 m for tomato -: inside it the compartments under the table start saturated, as documented)
    for soil in ("SandyLoam", "Loam", "Clay"):
        scs.append(S("Wheat", soil, seed=1, gw={"water_table": "Y", "dates": ["2001/04/20"], "values": [2.0]}, iwc={"wc_type": "Pct", "value": [50]}))
        scs.append(S("Tomato", soil, seed=1, gw={"water_table": "Y", "dates": ["2001/04/20"], "values": [1.5]}, iwc={"wc_type": "Pct", "method": "Depth", "depth_layer": [0.2, 0.9], "value": [80, 30]}))
    fine = {"type": "custom", "kw": {"dz": [0.1] * 12}, "layers": [[0.5, 0.1234, 0.2617, 0.4321, 300.0, 100], [0.7, 0.2046, 0.3551, 0.4879, 80.0, 100]]}
    for iw in ({"wc_type": "Pct", "value": [35, 65], "depth_layer": [1, 2]}, {"wc_type": "Pct", "method": "Depth", "depth_layer": [0.25, 1.0], "value": [70, 45]}):
        scs.append(S("Tomato", seed=1, soil_spec=fine, iwc=iw))
    # depth points exactly ON the interface between two layers (the value of a point belongs to the layer that begins there)
    for key in ("two_layer", "three_layer", "clay_over_sand"):
        spec = L.LAYERED_SOILS[key]
        bounds, tot = [], 0.0
        for lay in spec["layers"][:-1]:
            tot = round(tot + lay[0], 2)
            bounds.append(tot)
        pts = [0.1] + bounds
        for typ, vals in (("Prop", (["FC", "WP", "SAT", "FC"])[:len(pts)]), ("Pct", [80, 30, 60, 45][:len(pts)])):
            scs.append(S("Tomato", seed=1, soil_spec=spec, iwc={"wc_type": typ, "method": "Depth", "depth_layer": pts, "value": list(vals)}))
    scs.append(S("Wheat", "Paddy", seed=1, iwc={"wc_type": "Prop", "method": "Depth", "depth_layer": [0.2, 0.5], "value": ["WP", "FC"]}))
    scs.append(S("Wheat", "ac_TunisLocal", seed=1, iwc={"wc_type": "Prop", "method": "Depth", "depth_layer": [0.3, 1.0], "value": ["FC", "WP"]}))
    # one Soil object used for two models, the second with a deeper-rooting crop (the profile is deepened again; what the model runs on must follow)
    for soil, first, second in (("SandyLoam", "Tomato", "Maize"), ("Loam", "Wheat", "Maize"), ("Clay", "Potato", "Wheat")):
        b = S(second, soil, seed=1)
        b["_prelude"] = {"crop": {"name": first, "planting_date": "04/20", "harvest_date": None}}
        scs.append(b)
    # compartments thinner than 5 cm that have to be thickened three times for a deep-rooting crop
    scs.append(S("Maize", seed=1, soil_spec={"type": "SandyLoam", "kw": {"dz": [0.04] * 8}}))
    scs.append(S("Wheat", seed=1, soil_spec={"type": "Loam", "kw": {"dz": [0.03] * 6 + [0.1] * 2}}))
    # layers declared only for the upper part of the compartment grid
    for crop in ("Wheat", "Maize", "Tef"):
        scs.append(S(crop, seed=1, soil_spec=L.LAYERED_SOILS["shallow_layers"], iwc=rnd.choice(L.iwc_variants(2))))
    scs.append(S("Tomato", seed=1, soil_spec={"type": "Paddy", "kw": {"dz": [0.1] * 25}}, iwc={"value": ["FC", "FC"], "depth_layer": [1, 2]}))
    # texture-based layers in the pedotransfer's calibrated range
    for i in range(40 if tier == "thorough" else 6):
        sand, clay = rnd.uniform(5, 80), rnd.uniform(5, 55)
        if sand + clay > 95:
            continue
        om = rnd.uniform(0.2, 6)
        scs.append(S(rnd.choice(["Wheat", "Maize", "Tomato"]), seed=1,
                     soil_spec={"type": "custom", "kw": {"dz": rnd.choice([[0.1] * 12, [0.05] * 6 + [0.15] * 6, [0.2] * 9])},
                                "texture_layers": [[rnd.choice([0.3, 0.5]), sand, clay, om, 100], [3.0, max(3, sand - 10), min(58, clay + 8), om / 2, 100]]},
                     iwc=rnd.choice(L.iwc_variants(2))))
    return scs


def run(tier, seed):
    t0 = time.time()
    rnd = random.Random(180 + seed)
    mc = tracebase.run_mc_list([("MC_Soil.tla", "MC_Soil_quick.cfg", 900)], tier)
    V = C.Verdicts(PROP)
    # (a) replay of SoilBuild behaviours on the code
    cfgs = gen_configs(rnd, 600 if tier == "thorough" else 60)
    finals, st = spec_final_states(cfgs)
    built = C.pmap(SD.build_worker, [(c, 60) for c in cfgs])
    mismatches = 0
    for c, b in zip(cfgs, built):
        key = json.dumps(c, sort_keys=True)
        sc = b.get("scenario") or {"crop": {"name": "Wheat"}, "soil": {"type": "custom", "kw": {"dz": [d / 100 for d in c["dz"]]}}}
        if not b["ok"]:
            V.add("replay.exception." + b["error"]["type"], sc, {"config": c, "error": b["error"]})
            continue
        if not any(f["dz"] == b["dz"] and f["layer"] == b["layer"] for f in finals.get(key, [])):
            mismatches += 1
            V.add("replay.geometry", sc, {"config": c, "code": {"dz": b["dz"], "layer": b["layer"]}, "spec": finals.get(key)})
    # (b) profiles and initial water contents the code builds, judged by TLC (spec/SoilDoc.tla)
    scs = doc_scenarios(tier, seed)
    res = C.pmap(SD.soil_worker, scs)
    docs, dsc = [], []
    for sc, r in zip(scs, res):
        if r["ok"]:
            docs.append(r["doc"])
            dsc.append(sc)
        elif not C.documented_rejection(r["error"]):
            V.add("build.exception." + r["error"]["type"], sc, r["error"])
    verdicts, tstats = tlc.validate_docs(docs, "SoilDoc", lambda d: len(d["dzcm"]))
    for sc, v in zip(dsc, verdicts):
        if not v["ok"]:
            for k in v["profile"]:
                V.add("profile." + k, sc, v)
            for k in v["iwc"]:
                V.add("iwc." + k, sc, v)
    rc = V.report()
    cov = {"states": mc["states"] + st["states"] + tstats["states"], "transitions": mc["states"] + st["states"] + tstats["states"],
           "traces_validated_against_impl": len(cfgs) + len(docs),
           "samples": [{"replayed_config": cfgs[0], "spec_final": finals.get(json.dumps(cfgs[0], sort_keys=True))},
                       {"judged_profile_of": tracebase.sample_of(dsc[0]) if dsc else None}],
           "evaluations": len(cfgs) + len(scs), "distinct_nontrivial": len(cfgs) + len(docs),
           "rule": "replay: a SoilBuild configuration (thickness list, layer thicknesses, Zmax) run by TLC to `done` and built by the code through the "
                   "public API, geometry and layer assignment compared for equality (either outcome at the floating-point tie zSoil = Zmax+0.1); "
                   "documents: profile + initial water content built by the code for built-in / layered / texture soils x IWC type/method, judged by "
                   "TLC with spec/SoilDoc.tla",
           "model_instances": mc["instances"] + [{"module": "MC_SoilGen (generated)", "states": st["states"], "distinct": st["distinct"]}],
           "replay_configs": len(cfgs), "replay_mismatches": mismatches, "profiles_judged": len(docs), "known_findings_hit": V.known_hits,
           "exhaustive": False}
    C.write_evidence(PROP, tier, seed, "model_checking", cov, time.time() - t0, len(V.new),
                     assumptions=["lengths are exact in integer centimetres (the code rounds dz, dzsum to 2 decimals)", "TLC 1.8"])
    return rc


def replay(path):
    rep = json.load(open(path))
    print(json.dumps(rep["detail"], indent=1)[:3000])
    return 1
