"""C13 - see DESIGN.md section 5."""
from checks import tracebase, cropfam

PROP = "C13"
MCS = {"quick": [("AquaIrr.tla", "MC_Irr_quick.cfg", 1200)], "thorough": [("AquaIrr.tla", "MC_Irr.cfg", 2400)]}


def run(tier, seed):
    return tracebase.trace_check(PROP, tier, seed, cropfam.c13(tier, seed), MCS[tier])


def replay(path):
    return tracebase.replay_file(path, PROP)
