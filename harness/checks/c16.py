"""C16 - every valid configuration runs to completion with finite outputs."""
import datetime as dt
import json
import random
import time

import pandas as pd

import common as C
import equiv as E
import scenlib as L
import tlc

PROP = "C16"
THERMAL_KW = ("SwitchGDD",)


def classify(err):
    tb = err.get("tb", "") or ""
    msg = err.get("msg", "") or ""
    if err.get("type") in ("NonTermination", "RunTimeout"):
        return "timeout", "step", "nontermination"
    if "reset_initial_conditions" in tb:
        phase = "season_start"
    elif "_initialize" in tb:
        phase = "init"
    elif "run_model" in tb or "_perform_timestep" in tb:
        phase = "step"
    else:
        phase = "construct"
    reason = "undocumented"
    for (t, m), code in zip(C.DOCUMENTED, ["gdd", "oneyear", "dateformat", "dateformat", "weather", "weather", "span"]):
        if err.get("type") == t and m in msg:
            reason = code
    return ("rejected" if reason != "undocumented" else "crashed"), phase, reason


def cfg_facts(sc):
    crop = sc["crop"]
    thermal = crop["name"] in L.GDD_CROPS or (crop.get("kw") or {}).get("SwitchGDD") == 1 or (crop.get("kw") or {}).get("CalendarType") == 2
    s, e = pd.to_datetime(sc["start"]), pd.to_datetime(sc["end"])
    w = sc["weather"]
    covers = True
    if "synth" in w:
        ws = pd.to_datetime(w["synth"].get("start", "1999/01/01"))
        we = ws + pd.Timedelta(days=int(w["synth"].get("days", 1200)) - 1)
        covers = ws <= s and we >= e
    return {"thermal": bool(thermal), "weatherCovers": bool(covers), "years": int(e.year - s.year), "datesWellFormed": True}


def scenarios(tier, seed):
    rnd = random.Random(1600 + seed)
    S = L.scenario
    scs = []
    # catalogue: crops x soils x strategies
    if tier == "thorough":
        cat = [(c, so, m) for c in L.CROPS for so in L.SOILS for m in range(6)]
    else:
        # every crop, every soil, every strategy at least once (pairwise-ish cover)
        cat = []
        soils = L.SOILS[:]
        rnd.shuffle(soils)
        for i, c in enumerate(L.CROPS):
            cat.append((c, soils[i % len(soils)], i % 6))
            cat.append((c, soils[(i * 7 + 3) % len(soils)], (i * 5 + 2) % 6))
    for c, so, m in cat:
        nl = 2 if so in ("Paddy", "ac_TunisLocal") else 1
        irr = {"method": m}
        if m == 3:
            irr["schedule"] = [["2001/05/10", 25], ["2001/06/20", 30]]
        if m == 5:
            irr["kw"] = {"depth": 4}
        scs.append(S(c, so, seed=rnd.randrange(10 ** 6), irr=irr, iwc={"value": ["FC"] * nl, "depth_layer": list(range(1, nl + 1))}))
    # option switches set to each documented value
    nopt = 1500 if tier == "thorough" else 40
    for i in range(nopt):
        crop = rnd.choice(L.CROPS)
        kw = {}
        r = rnd.random()
        if r < 0.2:
            kw["PlantMethod"] = rnd.choice([0, 1])
        elif r < 0.35:
            kw["ETadj"] = rnd.choice([0, 1])
        elif r < 0.5:
            kw["GDDmethod"] = rnd.choice([1, 2, 3])
        elif r < 0.6 and crop in L.CAL_CROPS and L.MATURITY_CD[crop] < 250:
            kw["SwitchGDD"] = 1
        elif r < 0.7:
            kw["PolHeatStress"] = rnd.choice([0, 1]); kw["PolColdStress"] = rnd.choice([0, 1]); kw["TrColdStress"] = rnd.choice([0, 1])
        elif r < 0.8:
            kw["Determinant"] = rnd.choice([0, 1])
        soil = rnd.choice(L.SOILS)
        nl = 2 if soil in ("Paddy", "ac_TunisLocal") else 1
        field = rnd.choice(L.field_variants() + [{"bunds": True, "z_bund": 0.0}, {"bunds": True, "z_bund": 0.0005, "bund_water": 10}])
        gw = rnd.choice([None, None] + L.gw_variants("2001/04/20", 2001) + [{"water_table": "Y", "method": "Variable", "dates": ["2001/02/01", "2001/08/01", "2002/03/01"], "values": [1.5, 0.8, 2.0]}])
        co2 = rnd.choice([None, None, {"constant_conc": True}, {"constant_conc": True, "current_concentration": 600.0}, {"co2_data": [[1980, 340.0], [2020, 410.0]]}])
        seasons = rnd.choice([1, 1, 2]) if L.MATURITY_CD[crop] < 250 else 1
        scs.append(S(crop, soil, seed=rnd.randrange(10 ** 6), crop_kw=kw or None, field=field, gw=gw, co2=co2, seasons=seasons,
                     iwc=rnd.choice(L.iwc_variants(nl)), irr=rnd.choice(L.irr_variants(rnd, None, None, (4, 20), 2001)),
                     off_season=rnd.random() < 0.4, lead=rnd.choice([0, 0, 5, 60]),
                     soil_spec=rnd.choice([None, None, None, {"type": soil, "kw": {"z_cn": rnd.choice([0.1, 0.25, 0.3, 0.45]), "calc_cn": rnd.choice([0, 1]), "adj_rew": rnd.choice([0, 1])}}])))
    # leap-day dates, windows with no / partial seasons
    sp = [
        S("Wheat", "Loam", seed=1, plant_md=(2, 28), year=2000),
        dict(S("Wheat", "Loam", seed=2, plant_md=(3, 1), year=2000), end="2000/02/29") if False else S("Barley", "Loam", seed=2, plant_md=(3, 1), year=2000),
    ]
    a = S("Barley", "SandyLoam", seed=3, plant_md=(3, 1), year=2000)
    b = dict(a); b["start"] = "2000/02/29"                                    # leap-day start
    c = dict(a); c["end"] = "2004/02/29"; c["weather"] = L.synth(3, "warm", start="1999/01/01", days=2200)   # leap-day end
    d = S("Barley", "SandyLoam", seed=4, plant_md=(2, 28), year=2000); d["crop"]["planting_date"] = "02/29"; d["start"] = "2000/02/29"    # leap-day planting
    e = dict(a); e["start"] = "2000/03/05"; e["end"] = "2000/12/31"            # window starts after planting: contains no season
    f = dict(a); f["end"] = "2000/04/10"                                       # ends mid-season (partial)
    g = dict(a); g["start"] = "2000/01/01"; g["end"] = "2000/02/20"            # ends before the first planting date: no season
    h = S("Tomato", "Clay", seed=5, soil_spec={"type": "Clay", "kw": {"dz": [0.3, 0.3, 0.3, 0.3]}})          # all compartments >= 0.25 m, Zmax 1.0 -> needs 1.1 m: fits
    i = S("Wheat", "Clay", seed=6, soil_spec={"type": "Clay", "kw": {"dz": [0.3, 0.3, 0.3]}})               # Zmax 1.5 m needs deepening: all dz >= 0.25
    # windows that end exactly on a planting day (of the same / a later year), with and without off-season
    ends = []
    for yrs, off in ((1, False), (2, False), (2, True), (1, True)):
        w = S("Maize", "SandyLoam", seed=7 + yrs, plant_md=(5, 1), year=2000, seasons=yrs + 1, off_season=off)
        w["end"] = f"{2000 + yrs}/05/01"
        ends.append(w)
    for yrs, off in ((2, False), (2, True)):          # ... and one day after a planting day (the last season has exactly one day)
        w = S("Maize", "SandyLoam", seed=17 + yrs, plant_md=(5, 1), year=2000, seasons=yrs + 1, off_season=off)
        w["end"] = f"{2000 + yrs}/05/02"
        ends.append(w)
    w = S("TomatoGDD", "Loam", seed=12, plant_md=(4, 15), year=2000, seasons=3, regime="hot"); w["end"] = "2002/04/15"; ends.append(w)
    w = S("Wheat", "Loam", seed=13, plant_md=(10, 1), year=2000, seasons=3); w["end"] = "2002/10/01"; ends.append(w)
    # derived dates at the leap day: planting days for which (planting + days to maturity + 30 days) - the default latest harvest date - falls on
    # 28 Feb / 29 Feb / 1 Mar of a leap year when counted in the simulated years (the model counts in the reference year 1990)
    import datetime as _dt
    leap = []
    for crop in ("Barley", "Tomato", "Maize", "Potato", "Sorghum"):
        m = L.MATURITY_CD[crop] + 30
        for hy in (2004,) if tier != "thorough" else (2000, 2004):
            for off in ((0,) if tier != "thorough" and crop != "Barley" else (-1, 0, 1)):
                pday = _dt.date(hy, 2, 29) + _dt.timedelta(days=off) - _dt.timedelta(days=m)
                w = S(crop, "Loam", seed=40 + off, plant_md=(pday.month, pday.day), year=pday.year, seasons=2, regime="warm")
                leap.append(w)
    # water-table observations listed in another order than by date (Constant and Variable), a repeated reading
    unsorted = [S("Barley", "Loam", seed=50, gw={"water_table": "Y", "method": meth, "dates": ["2001/07/01", "2001/04/20", "2001/09/01", "2001/05/25"], "values": [1.1, 2.0, 1.6, 1.4]})
                for meth in ("Constant", "Variable")]
    # crops that emerge into a root zone without extractable water (start at wilting point, dry autumn of the repository's Mediterranean series):
    # the canopy is set back to zero day after day until the seedling protection ends
    dryem = []
    for y in ((1980, 1990) if tier != "thorough" else (1979, 1980, 1983, 1985, 1988, 1990, 1993, 1996)):
        for soil in (("Clay",) if tier != "thorough" else ("Clay", "SiltClay", "SandyLoam")):
            dryem.append(L.builtin_scenario("Wheat", y, plant="10/01", end=f"{y + 2}/09/30", soil=soil, iwc={"value": ["WP"]}))
    # surface features COMBINED: mulches on a bunded field with water standing between the bunds (initial bund water; storm on a slowly permeable soil),
    # in the season and in the fallow period
    combo = [S("PaddyRice", "Paddy", seed=60, regime="monsoon", field={"mulches": True, "mulch_pct": 60, "f_mulch": 0.5, "bunds": True, "z_bund": 0.1, "bund_water": 50},
               iwc={"value": ["FC", "FC"], "depth_layer": [1, 2]}),
             S("Wheat", "Clay", seed=61, field={"mulches": True, "mulch_pct": 80, "f_mulch": 0.7, "bunds": True, "z_bund": 0.15}, events=L.storm_events(2001, (4, 20), (90, 140, 60))),
             S("Barley", "SandyClay", seed=62, off_season=True, lead=30, fallow={"mulches": True, "mulch_pct": 50, "f_mulch": 0.5, "bunds": True, "z_bund": 0.08, "bund_water": 20},
               events=L.storm_events(2001, (3, 25), (80, 120)))]
    # very deep rooting on the two-horizon built-in soils (the profile has to be deepened far beyond the described horizons), wet enough for the
    # roots to get there
    deep = [S("AlfalfaGDD", so, seed=70 + k, regime="hot", irr={"method": 1, "kw": {"SMT": [80] * 4}}, iwc={"value": ["FC", "FC"], "depth_layer": [1, 2]}) for k, so in enumerate(("Paddy", "ac_TunisLocal"))]
    deep += [S("Maize", so, seed=72 + k, crop_kw={"Zmax": 2.8}, irr={"method": 1, "kw": {"SMT": [80] * 4}}, iwc={"value": ["FC", "FC"], "depth_layer": [1, 2]}) for k, so in enumerate(("Paddy", "ac_TunisLocal"))]
    scs += sp + [b, c, d, e, f, g, h, i] + ends + leap + unsorted + dryem + combo + [x for x in deep if L.deepenable(x)]
    # the pairwise covering array over the configuration dimensions (every pair of option levels occurs in some run)
    scs += L.pairwise_cases(seed)
    return scs


def run(tier, seed):
    t0 = time.time()
    scs = scenarios(tier, seed)
    jobs = [{"kind": "plain", "scenario": sc} for sc in scs]
    res = E.run_jobs(jobs, timeout=60)
    docs = []
    for sc, r in zip(scs, res):
        if r.get("ok"):
            t = r["tables"]
            docs.append({"cfg": cfg_facts(sc), "outcome": {"status": "completed", "phase": "step", "reason": ""}, "nonfinite": int(t["nfinite"]), "finished": bool(t["finished"])})
        else:
            status, phase, reason = classify(r["error"])
            docs.append({"cfg": cfg_facts(sc), "outcome": {"status": status, "phase": phase, "reason": reason}, "nonfinite": 0, "finished": False})
    verdicts, tstats = tlc.validate_docs(docs, "Outcome", lambda d: 1)
    V = C.Verdicts(PROP)
    oc = {}
    for sc, r, d, v in zip(scs, res, docs, verdicts):
        k = d["outcome"]["status"] + ("/" + d["outcome"]["reason"] if d["outcome"]["reason"] else "")
        oc[k] = oc.get(k, 0) + 1
        if not v["ok"]:
            err = r.get("error") or {}
            key = v["why"] + ("." + err.get("type", "") if err.get("type") else "")
            V.add(key, sc, {"outcome": d["outcome"], "error": {k2: err.get(k2) for k2 in ("type", "msg")}, "tb": (err.get("tb") or "")[-700:], "nonfinite": d["nonfinite"], "job": {"kind": "plain", "scenario": sc}})
    rc = V.report()
    cov = {"evaluations": len(scs), "distinct_nontrivial": len({C.sc_id(s) for s in scs}),
           "rule": "one evaluation = one run of a configuration satisfying the documented input constraints (catalogue crops x soils x strategies, option "
                   "switches at documented values, leap-day dates, windows with no / partial seasons, random weather), in a worker with a wall-clock "
                   "timeout; the recorded outcome is judged by TLC against spec/Outcome.tla (completed & finite, or a documented rejection raised at "
                   "construction / initialisation / season start)",
           "samples": [tracebaselike(s) for s in scs[:4]], "outcomes": oc, "states": tstats["states"], "exhaustive_catalogue": tier == "thorough",
           "known_findings_hit": V.known_hits}
    C.write_evidence(PROP, tier, seed, "exploration", cov, time.time() - t0, len(V.new),
                     assumptions=["a run that exceeds the wall-clock timeout is a non-termination verdict", "message classification of rejections is by substring of the documented messages"])
    return rc


def tracebaselike(sc):
    return {"crop": sc["crop"], "soil": sc.get("soil"), "window": [sc["start"], sc["end"]], "irr": (sc.get("irr") or {}).get("method", 0)}


def replay(path):
    rep = json.load(open(path))
    r = E.run_jobs([{"kind": "plain", "scenario": rep["scenario"]}], timeout=60)[0]
    print("ok" if r.get("ok") else r.get("error"))
    if r.get("ok"):
        print("nonfinite cells:", r["tables"]["nfinite"], "finished:", r["tables"]["finished"])
        return 0 if r["tables"]["nfinite"] == 0 and r["tables"]["finished"] else 1
    return 1
