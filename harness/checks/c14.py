"""C14 - no look-ahead: past outputs do not depend on future weather."""
import datetime as dt
import random

import pandas as pd

import scenlib as L
from checks import equivbase

PROP = "C14"


def odn(s):
    return pd.to_datetime(s).toordinal()


def run(tier, seed):
    rnd = random.Random(1400 + seed)
    S = L.scenario
    jobs, pairs = [], []
    cal = [S("Maize", "SandyLoam", seed=seed + 1, irr={"method": 1, "kw": {"SMT": [60] * 4}}, seasons=2),
           S("Wheat", "Clay", seed=seed + 2, lead=20, off_season=True, gw={"water_table": "Y", "dates": ["2001/03/31"], "values": [1.6]}),
           S("Tomato", "Loam", seed=seed + 3, irr={"method": 4}, iwc={"value": ["WP"]}, field={"mulches": True, "mulch_pct": 50, "f_mulch": 0.5}),
           S("Potato", "SiltLoam", seed=seed + 4, irr={"method": 2, "kw": {"IrrInterval": 7}}, seasons=2, off_season=True)]
    if tier == "thorough":
        cal += [S(c, rnd.choice(L.SOILS), seed=rnd.randrange(10 ** 6), irr=rnd.choice(L.irr_variants(rnd, None, None, (4, 20), 2001)),
                  seasons=rnd.choice([1, 2]), off_season=rnd.random() < 0.5, lead=rnd.choice([0, 15]))
                for c in rnd.sample([c for c in L.CAL_CROPS if L.MATURITY_CD[c] < 200], 8)]
    subsets = [["T"], ["P"], ["E"], ["T", "P"], ["T", "E"], ["P", "E"], ["T", "P", "E"]]
    for sc in cal:
        a = len(jobs)
        jobs.append({"kind": "plain", "scenario": sc})
        start = pd.to_datetime(sc["start"])
        p0 = dt.date(int(sc["start"][:4]), 4, 20)
        mat = L.MATURITY_CD[sc["crop"]["name"]]
        # cut days: phase boundaries +-1 and random days
        cuts = {1, 2, (p0 - start.date()).days + 1, (p0 - start.date()).days + 10, (p0 - start.date()).days + mat // 2,
                (p0 - start.date()).days + mat - 1, (p0 - start.date()).days + mat, (p0 - start.date()).days + mat + 1}
        cuts |= {rnd.randrange(1, (pd.to_datetime(sc["end"]) - start).days) for _ in range(6 if tier == "thorough" else 2)}
        cuts = sorted(c for c in cuts if 0 < c < (pd.to_datetime(sc["end"]) - start).days)
        if tier != "thorough":
            cuts = rnd.sample(cuts, min(5, len(cuts)))
        for c in cuts:
            vs = subsets if tier == "thorough" else [rnd.choice(subsets)]
            for v in vs:
                b = dict(sc)
                cutdate = (start + pd.Timedelta(days=c)).strftime("%Y/%m/%d")
                b["_perturb"] = {"cut": cutdate, "vars": v}
                jobs.append({"kind": "plain", "scenario": b})
                pairs.append({"a": a, "b": len(jobs) - 1, "rule": "prefix", "cut": odn(cutdate), "scenario": b,
                              "label": {"crop": sc["crop"]["name"], "cut_step": c, "vars": v}})
    # weather outside the window has no effect (every crop, incl. thermal)
    anyc = cal[:2] + [S("MaizeGDD", "SandyLoam", seed=seed + 20, regime="hot", seasons=2), S("WheatGDD", "Loam", seed=seed + 21, regime="warm"),
                      S("Wheat", "Loam", seed=seed + 22, crop_kw={"SwitchGDD": 1}, seasons=2)]
    for sc in anyc:
        a = len(jobs)
        jobs.append({"kind": "plain", "scenario": sc})
        after = (pd.to_datetime(sc["end"]) + pd.Timedelta(days=1)).strftime("%Y/%m/%d")
        variants = [{"_perturb": {"cut": after, "vars": ["T", "P", "E"]}},
                    {"_wx": {"trim_before": sc["start"]}}, {"_wx": {"trim_after": sc["end"]}},
                    {"_wx": {"pad_before": 400}}, {"_wx": {"pad_after": 1, "trim_before": sc["start"]}},
                    {"_wx": {"trim_before": sc["start"], "trim_after": sc["end"]}},
                    # records before the window that are NOT a gap-free daily sequence (a month missing 200 days before the start; sparse records)
                    {"_wx": {"pad_before": 300, "gap_before": sc["start"]}}, {"_wx": {"pad_sparse": True}}]
        for v in variants:
            b = dict(sc)
            b.update(v)
            jobs.append({"kind": "plain", "scenario": b})
            pairs.append({"a": a, "b": len(jobs) - 1, "rule": "identity", "scenario": b, "label": {"crop": sc["crop"]["name"], "outside": v}})
    # extending the end date leaves completed seasons unchanged (SwitchGDD excluded: calendar from the mean of all seasons, by design)
    # (a CO2 series with records only every few years: the concentration of the simulated years is interpolated between records on BOTH
    #  sides of the window - the extension moves the end date across the 2003 record)
    sparse = S("Maize", "Loam", seed=seed + 30, seasons=2, co2={"co2_data": [[1990, 355.0], [2000, 369.5], [2003, 378.0], [2010, 390.0]]})
    # (a water table interpolated between observations of which the last lies BEYOND both end dates: its depth on a day is a function of the dates)
    gwvar = S("Maize", "Loam", seed=seed + 31, seasons=2, gw={"water_table": "Y", "method": "Variable", "dates": ["2000/12/01", "2001/07/01", "2004/06/01"], "values": [2.2, 0.9, 1.8]})
    # (a crop whose aeration / minimum-rooting parameters differ from the fallow filler's, fallow days before planting, wet heavy soil)
    aer = S("Barley", "Clay", seed=seed + 32, seasons=2, lead=20, regime="wet")
    # (a dated schedule with events before the start and after both end dates)
    schd = S("Maize", "SandyLoam", seed=seed + 33, seasons=2, irr={"method": 3, "schedule": [["2001/03/01", 20], ["2001/03/20", 20], ["2001/05/10", 30], ["2001/06/15", 25], ["2002/06/01", 35], ["2004/07/01", 40]]})
    # (a CO2 level held constant at that of the first simulated year)
    cconst = S("Barley", "Loam", seed=seed + 34, seasons=2, co2={"constant_conc": True})
    for sc in cal[:3] + anyc[2:4] + [sparse, gwvar, aer, schd, cconst]:
        a = len(jobs)
        jobs.append({"kind": "plain", "scenario": sc})
        for ext in ([1, 200, 365] if tier == "thorough" else [1, 365]):
            b = dict(sc)
            b["end"] = (pd.to_datetime(sc["end"]) + pd.Timedelta(days=ext)).strftime("%Y/%m/%d")
            jobs.append({"kind": "plain", "scenario": b})
            pairs.append({"a": a, "b": len(jobs) - 1, "rule": "seasons", "scenario": b, "label": {"crop": sc["crop"]["name"], "extend_days": ext}})
    return equivbase.equiv_check(PROP, tier, seed, jobs, pairs, level="exploration",
                                 rule_text="C14: (cut day x perturbed variable subset) pairs judged on rows before the cut (rule prefix), weather outside the "
                                           "window altered/removed/padded (rule identity), end date extended (rule seasons)")


def replay(path):
    return equivbase.replay_pair(path, PROP)
