"""C11 - inputs are not consumed by a run."""
import random

import scenlib as L
from checks import equivbase

PROP = "C11"


def configs(tier, seed):
    rnd = random.Random(1100 + seed)
    S = L.scenario
    sched = [["2001/05/01", 30], ["2001/06/10", 40], ["2001/07/15", 25]]
    out = [S("Maize", "SandyLoam", seed=seed + 1, irr={"method": 0}),
           S("Wheat", "Loam", seed=seed + 2, irr={"method": 1, "kw": {"SMT": [60] * 4}}),
           S("Tomato", "ClayLoam", seed=seed + 3, irr={"method": 2, "kw": {"IrrInterval": 5}}),
           S("Sorghum", "Sand", seed=seed + 4, irr={"method": 3, "schedule": sched}),
           S("Barley", "SiltLoam", seed=seed + 5, irr={"method": 4}, iwc={"value": ["WP"]}),
           S("Potato", "Clay", seed=seed + 6, irr={"method": 5, "kw": {"depth": 5}}),
           S("Maize", "Default", seed=seed + 7),                                  # Zmax 2.3 m: the default profile is deepened
           S("AlfalfaGDD", "Default", seed=seed + 8),
           S("MaizeGDD", "SandyLoam", seed=seed + 9, regime="hot", seasons=2),
           S("Wheat", "SandyLoam", seed=seed + 10, crop_kw={"SwitchGDD": 1}, seasons=2),
           S("Wheat", "SandyLoam", seed=seed + 19, crop_kw={"SwitchGDD": 1}, seasons=2, harvest_date="12/03"),   # conversion to thermal time, harvest date given
           S("Maize", "Loam", seed=seed + 11, co2={"constant_conc": True, "current_concentration": 550.0}),
           S("Maize", "Loam", seed=seed + 12, co2={"constant_conc": True}),
           S("Maize", "Loam", seed=seed + 13, co2={"co2_data": [[1990, 355.0], [2000, 369.5], [2010, 390.0]]}, seasons=2),
           S("Quinoa", "SiltClay", seed=seed + 14, gw={"water_table": "Y", "method": "Variable", "dates": ["2001/04/20", "2001/07/01", "2001/10/30"], "values": [2.0, 0.8, 1.5]}),
           S("Tef", "Paddy", seed=seed + 15, field={"bunds": True, "z_bund": 0.1, "bund_water": 20}, fallow={"mulches": True, "mulch_pct": 50, "f_mulch": 0.5}, off_season=True, lead=10, iwc={"value": ["FC", "FC"], "depth_layer": [1, 2]}),
           S("Soybean", seed=seed + 16, soil_spec=L.LAYERED_SOILS["three_layer"], iwc={"wc_type": "Pct", "method": "Depth", "depth_layer": [0.2, 0.9], "value": [80, 30]})]
    # every setting of the management objects EFFECTIVE in the run (a consumed / rescaled setting then changes the results): bunds low enough
    # to overflow on a slowly draining soil, initial bund water, curve-number adjustment with runoff, mulches, a water table in the root zone
    big = L.storm_events(2001, (4, 20), (60, 35, 90, 25))
    out += [S("Maize", seed=seed + 17, soil_spec=L.TIGHT_SOIL, field={"bunds": True, "z_bund": 0.02, "bund_water": 15}, fallow={"bunds": True, "z_bund": 0.01, "bund_water": 5},
              events=big, off_season=True, lead=12, irr={"method": 5, "kw": {"depth": 4, "AppEff": 80, "WetSurf": 50, "MaxIrrSeason": 150}}),
            S("Barley", "ClayLoam", seed=seed + 18, events=big, field={"curve_number_adj": True, "curve_number_adj_pct": 25, "mulches": True, "mulch_pct": 60, "f_mulch": 0.7},
              gw={"water_table": "Y", "dates": ["2001/04/20", "2001/08/01"], "values": [1.1, 0.7]}, irr={"method": 1, "kw": {"SMT": [40, 55, 70, 35], "MaxIrr": 12, "AppEff": 75}})]
    # inputs handed over as numpy arrays (values read from a file): percentages of TAW by layer and by depth, numeric contents, thresholds
    out += [S("Soybean", seed=seed + 20, soil_spec=L.LAYERED_SOILS["two_layer"], iwc={"wc_type": "Pct", "value": [40, 70], "depth_layer": [1, 2], "_as_array": True}),
            S("Tomato", "Loam", seed=seed + 21, iwc={"wc_type": "Pct", "method": "Depth", "value": [80, 35], "depth_layer": [0.2, 0.9], "_as_array": True}),
            S("Barley", "SandyLoam", seed=seed + 22, iwc={"wc_type": "Num", "value": [0.17], "depth_layer": [1], "_as_array": True})]
    # a share of the pairwise covering array over the configuration dimensions
    out += L.pairwise_cases(seed, part=(seed + 7) % 26, parts=26) if tier != "thorough" else L.pairwise_cases(seed, part=seed % 3, parts=3)
    if tier == "thorough":
        out += L.diverse(rnd, 60, focus="no_restrictive")
    return out


def run(tier, seed):
    jobs, pairs = [], []
    for sc in configs(tier, seed):
        for mode in ("rerun", "newmodel"):
            for n in ((1, 2) if tier == "thorough" else (1,)):
                jobs.append({"kind": "reuse", "scenario": sc, "mode": mode, "n": n})
                j = len(jobs) - 1
                pairs.append({"a": (j, "first"), "b": j, "rule": "identity", "scenario": sc, "baseline_may_fail": True,
                              "label": {"crop": sc["crop"]["name"], "irr": (sc.get("irr") or {}).get("method", 0), "mode": mode, "n": n,
                                        "kw": sorted((sc["crop"].get("kw") or {}).keys()), "co2": sc.get("co2") is not None, "gw": sc.get("gw") is not None}})
    return equivbase.equiv_check(PROP, tier, seed, jobs, pairs, mcs=[("Histories.tla", "MC_Hist.cfg", 900)],
                                 rule_text="C11: a run followed by n re-runs of the same model object, or n new models built from the same user objects; "
                                           "the last run's tables must be identical to the first run's (an exception in a later run is a violation)")


def replay(path):
    return equivbase.replay_pair(path, PROP)
