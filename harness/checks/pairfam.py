"""The pairwise covering array as a scenario family (developer sweeps: python3 harness/sweep.py pairfam.all)."""
import scenlib as L


def all(tier, seed):
    return L.pairwise_cases(seed)
