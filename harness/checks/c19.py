"""C19 - shallow groundwater behaves consistently: stage/day clauses on traced runs + 'far table = no table' pairs."""
import json
import os
import random

import common as C
import equiv as E
import scenlib as L
import tlc
from checks import tracebase, cropfam

PROP = "C19"
MCS = [("MC_Water.tla", "MC_Water_q1.cfg", 1500)]


def far_pairs(tier, seed):
    rnd = random.Random(1900 + seed)
    S = L.scenario
    bases = [S("Maize", "SandyLoam", seed=seed + 1, irr={"method": 1, "kw": {"SMT": [60] * 4}}),
             S("Wheat", "Clay", seed=seed + 2, seasons=2, off_season=True),
             S("Tomato", "Paddy", seed=seed + 3, irr={"method": 4}, iwc={"value": ["WP", "WP"], "depth_layer": [1, 2]})]
    if tier == "thorough":
        bases += [S(c, rnd.choice(L.SOILS[:13]), seed=rnd.randrange(10 ** 6), irr=rnd.choice([None, {"method": 2}, {"method": 4}]), iwc=rnd.choice([{"value": ["WP"]}, {"wc_type": "Pct", "value": [50]}]))
                  for c in rnd.sample(L.CROPS, 12)]
    jobs, pairs = [], []
    for sc in bases:
        a = len(jobs)
        jobs.append({"kind": "plain", "scenario": sc})
        for depth in ([15.0, 40.0, 90.0] if tier == "thorough" else [40.0]):
            b = dict(sc)
            b["gw"] = {"water_table": "Y", "dates": [sc["start"]], "values": [depth]}
            jobs.append({"kind": "plain", "scenario": b})
            pairs.append((a, len(jobs) - 1, b, {"crop": sc["crop"]["name"], "far_table_m": depth}))
    return jobs, pairs


def run(tier, seed):
    rc = tracebase.trace_check(PROP, tier, seed, cropfam.c19(tier, seed), MCS)
    jobs, pairs = far_pairs(tier, seed)
    res = E.run_jobs(jobs)
    V = C.Verdicts(PROP)
    docs, meta = [], []
    for a, b, sc, label in pairs:
        if not (res[a].get("ok") and res[b].get("ok")):
            bad = res[b] if res[a].get("ok") else res[a]
            if not C.documented_rejection(bad.get("error")):
                V.add("far.exception." + (bad.get("error") or {}).get("type", "?"), sc, {"label": label, "error": bad.get("error")})
            continue
        docs.append(E.pair_doc("ignoreZgw", res[a]["tables"], res[b]["tables"]))
        meta.append((sc, label))
    verdicts, st = tlc.validate_pairs(docs)
    for (sc, label), v in zip(meta, verdicts):
        if not v["ok"]:
            V.add("far.ignoreZgw", sc, {"label": label, "verdict": v})
    rc2 = V.report()
    p = os.path.join(C.EVID, PROP + ".json")
    ev = json.load(open(p))
    ev["coverage"]["far_table_pairs_judged"] = len(docs)
    ev["coverage"]["traces_validated_against_impl"] += len(docs)
    ev["coverage"]["states"] += st["states"]
    ev["violations"] = ev.get("violations", 0) + len(V.new)
    json.dump(ev, open(p, "w"), indent=1)
    return 1 if (rc or rc2) else 0


def replay(path):
    return tracebase.replay_file(path, PROP)
