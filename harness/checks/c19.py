"""C19 - see DESIGN.md section 5."""
from checks import tracebase, cropfam

PROP = "C19"
MCS = {"quick": [("MC_Water.tla", "MC_Water_q1.cfg", 300)], "thorough": [("MC_Water.tla", "MC_Water_q1.cfg", 300)]}


def run(tier, seed):
    return tracebase.trace_check(PROP, tier, seed, cropfam.c19(tier, seed), MCS[tier])


def replay(path):
    return tracebase.replay_file(path, PROP)
