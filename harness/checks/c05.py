"""C05 - see DESIGN.md section 5."""
from checks import tracebase, cropfam

PROP = "C05"
MCS = {"quick": [("MC_Clock1.tla", "MC_ClockQ.cfg", 1800)], "thorough": [("MC_Clock1.tla", "MC_Clock1.cfg", 1800)]}


def run(tier, seed):
    return tracebase.trace_check(PROP, tier, seed, cropfam.c05(tier, seed), MCS[tier])


def replay(path):
    return tracebase.replay_file(path, PROP)
