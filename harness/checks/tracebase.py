"""Generic trace-based check: MC instance(s) of the spec + traced runs of the code validated against Trace.tla."""
import json
import os
import random
import time

import common as C
import tlc


def run_mc_list(mcs, tier):
    """mcs: list of (module, cfg, timeout) ; returns aggregated stats; raises on violated spec property"""
    agg = {"states": 0, "distinct": 0, "instances": []}
    for module, cfg, tmo in mcs:
        r = tlc.run_mc(module, cfg, workers=16, timeout=tmo)
        if r["violated"]:
            raise tlc.TLCError(f"specification instance {module}/{cfg} violates {r['violated']} - the model itself is inconsistent:\n" + r["raw_tail"][-1500:])
        if r["timed_out"] or not r["completed"]:
            raise tlc.TLCError(f"specification instance {module}/{cfg} did not complete within {tmo}s")
        dead = [a for a, n in r["coverage"].items() if n == 0 and a not in ("Init",)]
        if dead:
            raise tlc.TLCError(f"vacuity: actions never taken in {module}/{cfg}: {dead}")
        agg["states"] += r["states"]
        agg["distinct"] += r["distinct"]
        agg["instances"].append({"module": module, "cfg": cfg, "states": r["states"], "distinct": r["distinct"],
                                 "depth": r["depth"], "wall_s": r["wall_s"], "actions": r["coverage"]})
    return agg


def sample_of(sc):
    s = {"crop": sc["crop"]["name"], "soil": (sc.get("soil") or {}).get("type"), "window": [sc["start"], sc["end"]],
         "irr": (sc.get("irr") or {}).get("method", 0), "off_season": sc.get("off_season", False)}
    for k in ("field", "fallow", "gw", "iwc"):
        if sc.get(k):
            s[k] = sc[k]
    return s


def trace_check(prop, tier, seed, scenarios, mcs, level_note_extra=None, run_timeout=180, trace_level="full",
                extra_judge=None, nontrivial=None, max_steps=None, pairwise=True, level="model_checking"):
    t0 = time.time()
    mc = run_mc_list(mcs, tier) if mcs else {"states": 0, "distinct": 0, "instances": []}
    # every trace check also runs its share of the pairwise covering array over the configuration dimensions (scenlib.pairwise_cases): one
    # eighth per property in the quick tier (the eighths of the trace-based checks together cover the array), all of it in the thorough tier
    import scenlib as _L
    if pairwise and max_steps is None:
        scenarios = list(scenarios) + (_L.pairwise_cases(seed) if tier == "thorough" else _L.pairwise_cases(seed, part=int(prop[1:]), parts=8))
    scenarios = list(scenarios)
    # the runs are traced, validated and judged in chunks (a thorough tier of several hundred multi-season traces does not fit in memory at once)
    V = C.Verdicts(prop)
    CH = 64
    n_docs = n_judged = n_outside = n_rejected = events = days = 0
    ids = set()
    samples = []
    tstats = {"states": 0, "jvms": 0, "wall_s": 0.0}
    for c0 in range(0, len(scenarios), CH):
        docs = C.run_traced(scenarios[c0:c0 + CH], level=trace_level, timeout=run_timeout, max_steps=max_steps)
        herr = [d for d in docs if d["outcome"]["status"] == "harness_error"]
        if herr:
            raise RuntimeError("harness error while tracing: " + json.dumps(herr[0]["outcome"])[:1500])
        judged = [d for d in docs if d["cfg"] is not None]
        results, ts = tlc.validate_traces(judged)
        tstats = {"states": tstats["states"] + ts["states"], "jvms": max(tstats["jvms"], ts["jvms"]), "wall_s": round(tstats["wall_s"] + ts["wall_s"], 2)}
        # runs whose configured initial water content lies outside [air-dry, saturation] (e.g. a property value resolved in one layer and
        # interpolated into another) violate the properties' precondition: they are not judged, only counted
        outside = {i for i, r in enumerate(results) if any(v[1] == "Init.bounds" and v[2] == "thRange" for v in r)}
        n_outside += len(outside)
        keep = [i for i in range(len(judged)) if i not in outside]
        judged = [judged[i] for i in keep]
        results = [results[i] for i in keep]
        V.add_trace_results(judged, results)
        # runs that were rejected at construction / initialisation carry no cfg: they are judged by C16, not here,
        # but must not silently shrink the evidence
        n_rejected += sum(1 for d in docs if d["cfg"] is None)
        # a run that does not come back within the wall-clock limit is a non-termination verdict (C07 "the run always terminates", C16)
        if prop in ("C07", "C16"):
            for d in docs:
                if d["outcome"]["status"] == "timeout":
                    V.add("nontermination", d.get("scenario"), d["outcome"])
        if extra_judge:
            extra_judge(V, docs)
        n_docs += len(docs)
        n_judged += len(judged)
        events += sum(len(d["events"]) for d in judged)
        days += sum(1 for d in judged for e in d["events"] if e["e"] == "DayEnd")
        ids |= {C.sc_id(d["scenario"]) for d in judged if (nontrivial(d) if nontrivial else True)}
        if len(samples) < 6:
            samples += [sample_of(d["scenario"]) for d in judged[:6 - len(samples)]]
        del docs, judged, results
    rc = V.report()
    distinct = len(ids)
    cov = {
        "states": max(1, mc["states"] + tstats["states"]),
        "transitions": max(1, mc["states"] + tstats["states"]),
        "traces_validated_against_impl": n_judged,
        "samples": samples or [sample_of(s) for s in scenarios[:3]],
        "evaluations": n_docs,
        "distinct_nontrivial": distinct,
        "rule": "one evaluation = one simulated run of the real code, traced stage by stage and validated by TLC against "
                "spec/Trace.tla; distinct = distinct scenario descriptions; non-trivial = run initialised and produced day events",
        "model_instances": mc["instances"],
        "model_states_generated": mc["states"], "model_states_distinct": mc["distinct"],
        "trace_states": tstats["states"], "trace_events": events, "simulated_days": days,
        "trace_jvms": tstats["jvms"], "trace_validation_wall_s": tstats["wall_s"],
        "runs_rejected_before_first_day": n_rejected, "runs_outside_precondition_initial_water": n_outside,
        "fidelity_mismatches": V.fidelity,
        "violations_of_other_properties_seen": V.other_props,
        "known_findings_hit": V.known_hits,
        "exhaustive": False,
    }
    C.write_evidence(prop, tier, seed, level, cov, time.time() - t0, len(V.new),
                     assumptions=["TLC 1.8 / CommunityModules Json", "harness projection (float -> 1e-12 fixed point, digests)",
                                  "stage functions looked up by name in aquacrop.timestep.run_single_timestep",
                                  "pandas 3 / numpy 2 semantics of this sandbox"] + (level_note_extra or []))
    return rc


def replay_file(path, prop):
    """re-run the scenario of a replay file and print what TLC says about it"""
    rep = json.load(open(path))
    sc = rep["scenario"]
    docs = C.run_traced([sc], timeout=300)
    judged = [d for d in docs if d["cfg"] is not None]
    if not judged:
        print("run rejected/crashed:", docs[0]["outcome"])
        return 1
    results, _ = tlc.validate_traces(judged)
    bad = [v for v in results[0] if prop in v[3]]
    for v in bad[:20]:
        print("violated clause", v[1], v[2], "at event", v[0])
    return 1 if bad else 0
