"""Exploration family: extreme but valid parameter values, one at a time on a few bases (developer sweeps)."""
import scenlib as L


def all(tier, seed):
    S = L.scenario
    bases = [dict(crop="Maize", soil="SandyLoam"), dict(crop="Wheat", soil="Clay"), dict(crop="TomatoGDD", soil="Loam", regime="hot"), dict(crop="Potato", soil_spec=L.LAYERED_SOILS["sand_over_clay"], iwc={"value": ["FC", "FC"], "depth_layer": [1, 2]})]
    ext = [
        dict(irr={"method": 1, "kw": {"SMT": [100] * 4, "MaxIrr": 8}}),
        dict(irr={"method": 1, "kw": {"SMT": [0] * 4}}),
        dict(irr={"method": 4, "kw": {"NetIrrSMT": 100}}),
        dict(irr={"method": 4, "kw": {"NetIrrSMT": 0}}),
        dict(irr={"method": 2, "kw": {"IrrInterval": 1, "AppEff": 1}}),
        dict(irr={"method": 5, "kw": {"depth": 200, "MaxIrr": 500}}),
        dict(irr={"method": 2, "kw": {"IrrInterval": 3, "WetSurf": 0}}),
        dict(field={"mulches": True, "mulch_pct": 100, "f_mulch": 1.0}),
        dict(field={"curve_number_adj": True, "curve_number_adj_pct": -90}),
        dict(field={"curve_number_adj": True, "curve_number_adj_pct": 40}),
        dict(field={"bunds": True, "z_bund": 0.05, "bund_water": 50}),
        dict(field={"bunds": True, "z_bund": 1.0, "bund_water": 900}),
        dict(gw={"water_table": "Y", "dates": ["2001/04/20"], "values": [0.05]}),
        dict(gw={"water_table": "Y", "dates": ["2001/04/20"], "values": [0.0]}),
        dict(gw={"water_table": "Y", "dates": ["2001/04/20"], "values": [100.0]}),
        dict(co2={"constant_conc": True, "current_concentration": 369.41}),
        dict(co2={"constant_conc": True, "current_concentration": 2000.0}),
        dict(co2={"constant_conc": True, "current_concentration": 3000.0}),
        dict(co2={"constant_conc": True, "current_concentration": 200.0}),
        dict(events=[{"from": "2001/04/20", "to": "2001/05/15", "Tmax": 4.0, "Tmin": -2.0}]),
        dict(events=[{"from": "2001/01/01", "to": "2002/12/31", "P": 0}]),
        dict(events=[{"from": "2001/01/01", "to": "2002/12/31", "P": 40}]),
        dict(events=[{"from": "2001/06/01", "to": "2001/06/20", "ET0": 14.0}]),
        dict(events=[{"from": "2001/04/20", "to": "2001/12/31", "Tmax": 20.0, "Tmin": 20.0}]),
        dict(lead=1), dict(lead=364, off_season=True),
        dict(iwc={"wc_type": "Pct", "value": [0]}), dict(iwc={"wc_type": "Pct", "value": [100]}),
        dict(tail=-20), dict(tail=1),
    ]
    out = []
    for b in bases:
        for e in ext:
            kw = dict(b)
            if "iwc" in e and "iwc" in kw and len(kw["iwc"]["value"]) == 2:
                e = dict(e, iwc={"wc_type": "Pct", "value": [e["iwc"]["value"][0]] * 2, "depth_layer": [1, 2]})
            kw.update(e)
            crop = kw.pop("crop")
            soil = kw.pop("soil", "SandyLoam")
            out.append(S(crop, soil, seed=seed + len(out), **kw))
    return [s for s in out if L.deepenable(s)]
