"""C07 - the simulation calendar is exact.  Both conformance directions:
 (a) windows of the MC_Clock lattice are replayed on the code (fast crop) and every step compared with ClockRel!ClockStep;
 (b) the clock events of full-length numeric runs (thermal crops, deaths) are validated against the same model."""
import datetime as dt
import random

import clockgen as G
import scenlib as L
import tlc
from checks import tracebase

PROP = "C07"


def span(w):
    return (dt.date(*w["end"]) - dt.date(*w["start"])).days


def windows(tier, seed):
    ws = G.lattice(tier, seed)
    n_mc = 700 if tier == "thorough" else 70
    n_rep = 400 if tier == "thorough" else 36
    short = [w for w in ws if span(w) <= 460]
    longw = [w for w in ws if span(w) > 460]
    mc = short[: int(n_mc * 0.8)] + longw[: n_mc - int(n_mc * 0.8)]
    # replay sample stratified over (start relative to planting, season count class, off-season, harvest kind)
    def klass(w):
        s, p = dt.date(*w["start"]), dt.date(w["start"][0], *w["plant"])
        rel = (s - p).days
        if rel < -300:
            rel = (s - dt.date(w["start"][0] - 1, *w["plant"])).days
        relc = "before" if rel < 0 and rel > -100 else "far_before" if rel <= -100 else "at" if rel == 0 else "after"
        return (relc, min(span(w) // 300, 3), w["off"], w["harv"] is None)
    groups = {}
    for w in ws:
        groups.setdefault(klass(w), []).append(w)
    rep = []
    keys = sorted(groups, key=str)
    i = 0
    while len(rep) < n_rep and any(groups[k] for k in keys):
        k = keys[i % len(keys)]
        if groups[k]:
            cand = groups[k].pop(0)
            if span(cand) <= 1200:
                rep.append(cand)
        i += 1
    return mc, rep


def numeric(tier, seed):
    rnd = random.Random(7000 + seed)
    S = L.scenario
    scs = [
        S("MaizeGDD", "SandyLoam", seed=seed + 1, regime="hot", seasons=2),
        S("WheatGDD", "Loam", seed=seed + 2, plant_md=(11, 15), year=2000, seasons=2, regime="warm", off_season=True),
        S("Maize", "Sand", seed=seed + 3, regime="arid", iwc={"value": ["WP"]}, wparams={"pwet": 0.0}, seasons=2),          # dies
        S("Barley", "Clay", seed=seed + 4, plant_md=(12, 20), year=2000, seasons=2, harvest_date="03/10"),                  # New-Year wrap, binding harvest
        S("Tef", "Loam", seed=seed + 5, lead=40, off_season=True, seasons=3, tail=10),
        S("Potato", "SiltLoam", seed=seed + 6, plant_md=(2, 28), year=2003, seasons=2),
        S("Sorghum", "Loam", seed=seed + 7, lead=37, seasons=3),                       # start before planting, jumps between seasons
        S("BarleyGDD", "SandyLoam", seed=seed + 8, lead=5, seasons=2, regime="warm"),
        # a leap day inside the first season / inside the span of the derived latest harvest date (the model derives it in the reference year 1990)
        S("Wheat", "Loam", seed=seed + 9, plant_md=(10, 15), year=2003, seasons=2),
        S("Barley", "SandyLoam", seed=seed + 10, plant_md=(1, 20), year=2004, seasons=2, off_season=True),
    ]
    # month/day strings written without leading zeros (valid: the model parses them as dates), for a single-year and a year-spanning season
    u1 = S("Maize", "SandyLoam", seed=seed + 11, plant_md=(5, 1), year=2001, seasons=2)
    u1["crop"]["planting_date"] = "5/1"
    u2 = S("Wheat", "Loam", seed=seed + 12, plant_md=(10, 15), year=2001, seasons=2)
    u2["crop"]["harvest_date"] = "5/31"
    u3 = S("Barley", "Loam", seed=seed + 13, plant_md=(3, 5), year=2001, seasons=2, off_season=True)
    u3["crop"]["planting_date"] = "3/5"
    u3["crop"]["harvest_date"] = "11/2"
    # a window that ends the day after the last planting date (the last season consists of one day), with a jump between seasons before it
    e1 = S("Maize", "SandyLoam", seed=seed + 14, plant_md=(5, 1), year=2000, seasons=3)
    e1["end"] = "2002/05/02"
    e2 = S("Barley", "Loam", seed=seed + 15, plant_md=(3, 10), year=2001, seasons=2, lead=12)
    e2["end"] = "2002/03/11"
    # calendar lengths handed over as numpy scalars (parameters taken from an array / a table row)
    n1 = S("Maize", "SandyLoam", seed=seed + 16, seasons=2, crop_kw={"MaturityCD": 120, "SenescenceCD": 100, "HIstartCD": 60, "EmergenceCD": 7, "MaxRootingCD": 90})
    n1["crop"]["_np_kw"] = True
    n2 = S("Barley", "Loam", seed=seed + 17, off_season=True, lead=9, crop_kw={"MaturityCD": 95.0, "SenescenceCD": 70.0})
    n2["crop"]["_np_kw"] = True
    scs += [u1, u2, u3, e1, e2, n1, n2]
    if tier == "thorough":
        for i in range(60):
            crop = rnd.choice([c for c in L.CROPS if L.MATURITY_CD[c] < 250])
            pm = rnd.choice([(1, 1), (2, 28), (3, 1), (6, 15), (10, 20), (12, 25), (12, 31)])
            scs.append(S(crop, rnd.choice(L.SOILS), seed=rnd.randrange(10 ** 6), plant_md=pm, year=rnd.choice([1999, 2000, 2003]),
                         seasons=rnd.choice([1, 2, 3]), lead=rnd.choice([0, 0, 3, 200]), off_season=rnd.random() < 0.5,
                         regime="monsoon" if pm[0] in (10, 12, 1) and crop not in L.CAL_CROPS else None,
                         wparams={"tamp": 1.0} if crop not in L.CAL_CROPS else None))
    return scs


def run(tier, seed):
    mcw, repw = windows(tier, seed)
    tla, cfg = G.mc_text("MC_ClockGen", [G.tla_window(w) for w in mcw]
                         + [G.tla_window(w, thermal=True, die=True) for w in mcw[:10] if w["maturity"] <= 15],
                         [0, 1, 2, 5])

    class Gen:
        pass
    # run the generated instance through the same path as committed instances
    def mc_runner():
        r = tlc.run_mc_generated("MC_ClockGen", tla, cfg, timeout=1800 if tier == "thorough" else 400)
        return r
    r = mc_runner()
    if r["violated"] or not r["completed"]:
        raise tlc.TLCError(f"MC_Clock lattice instance: violated={r['violated']} completed={r['completed']}\n" + r["raw_tail"][-1500:])
    scs = [G.scenario_of(w, seed=seed + i) for i, w in enumerate(repw)] + numeric(tier, seed)
    rc = tracebase.trace_check(PROP, tier, seed, scs, [], run_timeout=240)
    # add the model statistics of the generated instance to the evidence
    import json, os, common as C
    p = os.path.join(C.EVID, PROP + ".json")
    ev = json.load(open(p))
    ev["coverage"]["model_instances"].append({"module": "MC_ClockGen (generated from the window lattice)", "windows": len(mcw) + 10,
                                              "states": r["states"], "distinct": r["distinct"], "depth": r["depth"], "wall_s": r["wall_s"],
                                              "actions": r["coverage"]})
    ev["coverage"]["states"] += r["states"]
    ev["coverage"]["transitions"] += r["states"]
    ev["coverage"]["model_states_generated"] = r["states"]
    ev["coverage"]["model_states_distinct"] = r["distinct"]
    ev["coverage"]["windows_replayed_on_code"] = len(repw)
    json.dump(ev, open(p, "w"), indent=1)
    return rc


def replay(path):
    return tracebase.replay_file(path, PROP)
