"""C20 - disabled features and neutral settings are inert."""
import copy
import itertools
import random

import pandas as pd

import scenlib as L
from checks import equivbase

PROP = "C20"


def upd(sc, path, **kw):
    b = copy.deepcopy(sc)
    d = b.setdefault(path, {}) if path not in ("irr_kw",) else b.setdefault("irr", {"method": 0}).setdefault("kw", {})
    if d is None:
        b[path] = {}
        d = b[path]
    d.update(kw)
    return b


def transformations(sc):
    """name -> function(scenario) -> transformed scenario, applicable to sc (the listed neutral transformations)"""
    T = {}
    field = sc.get("field") or {}
    irr = sc.get("irr") or {"method": 0}
    m = int(irr.get("method", 0))
    if not field.get("mulches"):
        T["mulch_params_off"] = lambda s: upd(s, "field", mulch_pct=90, f_mulch=0.9)
    if not field.get("bunds"):
        T["bund_params_off"] = lambda s: upd(s, "field", z_bund=0.3, bund_water=55)
    if not field.get("curve_number_adj"):
        T["cn_pct_without_flag"] = lambda s: upd(s, "field", curve_number_adj_pct=25)
    # the same for the fallow field management (used on days outside the growing season)
    fallow = sc.get("fallow") or {}
    if not fallow.get("mulches"):
        T["fallow_mulch_params_off"] = lambda s: upd(s, "fallow", mulch_pct=85, f_mulch=0.8)
    if not fallow.get("bunds"):
        T["fallow_bund_params_off"] = lambda s: upd(s, "fallow", z_bund=0.2, bund_water=35)
    if not fallow.get("curve_number_adj"):
        T["fallow_cn_pct_without_flag"] = lambda s: upd(s, "fallow", curve_number_adj_pct=20)
    # parameters of non-selected strategies
    other = {}
    if m != 1:
        other["SMT"] = [35, 45, 55, 65]
    if m != 2:
        other["IrrInterval"] = 4
    if m != 4:
        other["NetIrrSMT"] = 33
    if m != 5:
        other["depth"] = 17
    T["other_strategy_params"] = lambda s, o=other: upd(s, "irr_kw", **o)
    if m == 0:
        T["eff_wetsurf_rainfed"] = lambda s: upd(s, "irr_kw", AppEff=55, WetSurf=30)
    if field.get("mulches"):
        pass
    else:
        T["mulch_cover_zero"] = lambda s: upd(s, "field", mulches=True, mulch_pct=0, f_mulch=0.7)
        T["mulch_factor_zero"] = lambda s: upd(s, "field", mulches=True, mulch_pct=70, f_mulch=0)
    if m == 0:
        def depth0(s):
            b = copy.deepcopy(s)
            b["irr"] = {"method": 5, "kw": {"depth": 0}}
            return b

        def empty_sched(s):
            b = copy.deepcopy(s)
            b["irr"] = {"method": 3, "schedule": []}
            return b

        def max0(s):
            b = copy.deepcopy(s)
            b["irr"] = {"method": 1, "kw": {"SMT": [70] * 4, "MaxIrr": 0}}
            return b

        def season0(s):
            b = copy.deepcopy(s)
            b["irr"] = {"method": 2, "kw": {"IrrInterval": 3, "MaxIrrSeason": 0}}
            return b
        T["const_depth_zero"] = depth0
        T["empty_schedule"] = empty_sched
        T["daily_max_zero"] = max0
        T["season_max_zero"] = season0
    if sc["crop"].get("harvest_date") is None and sc["crop"]["name"] in L.CAL_CROPS:
        def explicit_harvest(s):
            b = copy.deepcopy(s)
            mat = int((s["crop"].get("kw") or {}).get("MaturityCD", L.MATURITY_CD[s["crop"]["name"]]))
            h = pd.to_datetime("1990/" + s["crop"]["planting_date"]) + pd.Timedelta(days=mat + 30)
            b["crop"]["harvest_date"] = f"{h.month}/{h.day}"
            return b
        T["explicit_default_harvest"] = explicit_harvest
    elif sc["crop"].get("harvest_date") is None:
        # thermal crops: the default depends on the weather of the first season - it is read from a model initialised on the base configuration
        def explicit_harvest_thermal(s):
            import scenario as S_
            m = S_.make_model(s)
            m._initialize()
            b = copy.deepcopy(s)
            b["crop"]["harvest_date"] = str(m._param_struct.CropList[0].harvest_date)
            return b
        T["explicit_default_harvest"] = explicit_harvest_thermal
    return T


EXCLUSIVE = [{"const_depth_zero", "empty_schedule", "daily_max_zero", "season_max_zero", "eff_wetsurf_rainfed", "other_strategy_params"},
             {"mulch_params_off", "mulch_cover_zero", "mulch_factor_zero"}]


def compatible(names):
    for grp in EXCLUSIVE:
        if len(set(names) & grp) > 1 and not (set(names) & grp) <= {"eff_wetsurf_rainfed", "other_strategy_params"}:
            return False
    return True


def run(tier, seed):
    rnd = random.Random(2000 + seed)
    S = L.scenario
    bases = [S("Maize", "Clay", seed=seed + 1, events=L.storm_events(2001, (4, 20), (120, 60, 200))),
             S("Wheat", "SandyLoam", seed=seed + 2, irr={"method": 1, "kw": {"SMT": [60] * 4}}, seasons=2),
             S("Tomato", "ClayLoam", seed=seed + 3, irr={"method": 2, "kw": {"IrrInterval": 5}}, off_season=True, lead=10,
               field={"bunds": True, "z_bund": 0.08}),
             S("Sorghum", "SiltClay", seed=seed + 4, irr={"method": 4}, field={"mulches": True, "mulch_pct": 40, "f_mulch": 0.6}, iwc={"value": ["WP"]}),
             # profiles on which water backs up to the surface (impeding sub-layer, wet weather): surface bookkeeping is exercised
             S("Wheat", "Paddy", seed=seed + 5, regime="wet", iwc={"value": ["SAT", "SAT"], "depth_layer": [1, 2]}),
             S("Tomato", seed=seed + 6, regime="monsoon", soil_spec=L.LAYERED_SOILS["low_ksat"], iwc={"value": ["FC", "SAT"], "depth_layer": [1, 2]}, off_season=True, lead=12),
             # irrigation that wets only part of the surface (so that surface-cover features interact with it), dry weather
             S("Maize", "Loam", seed=seed + 7, regime="arid", irr={"method": 2, "kw": {"IrrInterval": 6, "WetSurf": 30, "AppEff": 80}}),
             S("Potato", "SandyLoam", seed=seed + 8, regime="arid", irr={"method": 1, "kw": {"SMT": [70] * 4, "WetSurf": 50}}, field={"bunds": True, "z_bund": 0.05}),
             # calendar given in days, converted to thermal time by the model (the conversion must not depend on how the harvest date was given)
             S("Wheat", "SandyLoam", seed=seed + 10, crop_kw={"SwitchGDD": 1}, seasons=2),
             # an autumn-sown thermal crop over a leap day, with year-to-year temperature differences large enough for the latest harvest date to
             # end a slow season (the default latest harvest date must be the same date whether derived or stated)
             S("WheatGDD_1dec", "Loam", seed=4, plant_md=(10, 15), year=2002, seasons=3, regime="temperate", wparams={"yr_amp": 4.0, "tamp": 8.0}),
             # water standing between bunds for weeks (flooded surface): switched-off mulch settings must stay without effect there too
             S("PaddyRice", "Paddy", seed=seed + 13, regime="monsoon", field={"bunds": True, "z_bund": 0.15, "bund_water": 80}, iwc={"value": ["SAT", "SAT"], "depth_layer": [1, 2]}),
             # runoff inhibited by the management: the (switched-off) bund settings must not decide whether it is
             S("Maize", "Clay", seed=seed + 12, field={"sr_inhb": True}, events=L.storm_events(2001, (4, 20), (120, 60, 200))),
             # mulches on the fallow field only, fallow days simulated: the in-season mulch settings (switched off) must stay without effect there
             S("Barley", "Loam", seed=seed + 11, regime="warm", off_season=True, lead=40, seasons=2, fallow={"mulches": True, "mulch_pct": 40, "f_mulch": 0.6}),
             # long fallow periods with rain (off-season simulated, start well before planting): the fallow management matters
             S("Wheat", "ClayLoam", seed=seed + 9, regime="wet", off_season=True, lead=45, seasons=2, events=L.storm_events(2001, (1, 20), (90, 60, 120)))]
    if tier == "thorough":
        bases += [S(c, rnd.choice(L.SOILS), seed=rnd.randrange(10 ** 6), irr=rnd.choice([None, {"method": 1, "kw": {"SMT": [50] * 4}}, {"method": 5, "kw": {"depth": 3}}]),
                    off_season=rnd.random() < 0.5, events=rnd.choice([None, L.storm_events(2001, (4, 20))]))
                  for c in rnd.sample(L.CAL_CROPS[:12], 8)]
    jobs, pairs = [], []
    for sc in bases:
        a = len(jobs)
        jobs.append({"kind": "plain", "scenario": sc})
        T = transformations(sc)
        names = sorted(T)
        combos = [(n,) for n in names]
        maxk = 4 if tier == "thorough" else 2
        for k in range(2, maxk + 1):
            cs = [c for c in itertools.combinations(names, k) if compatible(c)]
            if tier != "thorough":
                cs = rnd.sample(cs, min(3, len(cs)))
            elif len(cs) > 40:
                cs = rnd.sample(cs, 40)
            combos += cs
        for combo in combos:
            b = sc
            for n in combo:
                b = T[n](b)
            jobs.append({"kind": "plain", "scenario": b})
            pairs.append({"a": a, "b": len(jobs) - 1, "rule": "identity", "scenario": b,
                          "label": {"crop": sc["crop"]["name"], "base_irr": (sc.get("irr") or {}).get("method", 0), "transformations": list(combo)}})
    return equivbase.equiv_check(PROP, tier, seed, jobs, pairs, level="exploration",
                                 rule_text="C20: each listed neutral transformation alone and in combination vs the base configuration, rule identity")


def replay(path):
    return equivbase.replay_pair(path, PROP)
