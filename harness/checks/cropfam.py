"""Scenario families for C05, C06, C12, C13, C19."""
import datetime as dt
import random
import scenlib as L

S = L.scenario


def c05(tier, seed):
    rnd = random.Random(5000 + seed)
    scs = []
    crops = L.CROPS if tier == "thorough" else rnd.sample(L.CROPS, 10)
    soil_opts = ["light", "heavy", "restrictive", "table"]
    stress_opts = ["watered", "drought", "waterlog", "cold", "heat", "mild"]
    combos = [(c, so, st) for c in crops for so in soil_opts for st in stress_opts]
    if tier != "thorough":
        combos = rnd.sample(combos, 22)
    for crop, so, st in combos:
        kw = {}
        if so == "light":
            kw["soil"] = "LoamySand"
        elif so == "heavy":
            kw["soil"] = "Clay"
        elif so == "restrictive":
            kw["soil_spec"] = L.LAYERED_SOILS["restrictive"]
            kw["iwc"] = {"value": ["FC", "FC"], "depth_layer": [1, 2]}
        else:
            kw["soil"] = "Loam"
            kw["gw"] = {"water_table": "Y", "method": "Variable", "dates": ["2001/01/01", "2001/07/01", "2001/12/31"], "values": [1.6, 0.6, 1.8]}
        reg = L.REGIME_FOR.get(crop, "warm")
        if st == "watered":
            kw["irr"] = {"method": 1, "kw": {"SMT": [80] * 4}}
        elif st == "drought":
            kw["events"] = L.drought_events(2001, (4, 20), 140)
            kw["iwc"] = kw.get("iwc") or {"wc_type": "Pct", "value": [30]}
        elif st == "waterlog":
            kw["events"] = L.storm_events(2001, (4, 20), (250, 250, 250, 250))
            kw["irr"] = {"method": 5, "kw": {"depth": 20}}
        elif st == "cold":
            kw["wparams"] = {"tmean": {"hot": 20, "warm": 13, "monsoon": 18}.get(reg, 13)}
        elif st == "mild":
            kw["irr"] = {"method": 1, "kw": {"SMT": [rnd.choice([20, 30])] * 4, "MaxIrr": rnd.choice([6, 8])}}
        elif st == "heat":
            kw["wparams"] = {"tmean": 34, "dtr": 9}
            kw["irr"] = {"method": 1, "kw": {"SMT": [70] * 4}}
        scs.append(S(crop, seed=rnd.randrange(10 ** 6), regime=reg, **kw))
    # harvest-index adjustment near its cap: crops with a pre-anthesis bonus under mild persistent stress
    for crop in (["Cotton", "CottonGDD", "Sorghum", "SorghumGDD"] if tier == "thorough" else ["Cotton", "SorghumGDD", "Sorghum"]):
        scs.append(S(crop, "SandyLoam", seed=rnd.randrange(10 ** 6), regime="hot", irr={"method": 1, "kw": {"SMT": [20] * 4, "MaxIrr": 6}}))
    # ... on the repository's own Mediterranean weather (dry summers): deficit irrigation of summer crops
    years = list(range(1980, 2001)) if tier == "thorough" else [1984, 1987, rnd.choice([1988, 1990, 1995])]
    for y in years:
        crop = rnd.choice(["Cotton", "CottonGDD"]) if y in (1984, 1987, 1988) else rnd.choice(["Cotton", "CottonGDD", "Sorghum", "SorghumGDD", "Maize", "Sunflower", "Soybean"])
        scs.append(L.builtin_scenario(crop, y, irr={"method": 1, "kw": {"SMT": [rnd.choice([20, 20, 30])] * 4, "MaxIrr": rnd.choice([6, 6, 8])}}))
    # cold from sowing until after the start of yield formation (no transpiration, no biomass at all when the harvest index starts to build up)
    import datetime as _dt
    p0_ = _dt.date(2001, 4, 20)
    for crop in ("Sunflower", "Sorghum"):
        scs.append(S(crop, "Loam", seed=rnd.randrange(10 ** 6), events=[{"from": L.dstr(p0_), "to": L.dstr(p0_ + _dt.timedelta(days=88)), "Tmax": 6.0, "Tmin": 1.0}]))
    # a water table a little BELOW the maximum rooting depth and a dry start (roots expanding through soil between wilting point and the
    # table-adjusted field capacity)
    for crop, zmax in (("Tomato", 1.0), ("Wheat", 1.5), ("Potato", 1.5)):
        for pct in ((25,) if tier != "thorough" else (15, 20, 25, 30, 35)):
            scs.append(S(crop, rnd.choice(["SandyLoam", "Loam"]), seed=rnd.randrange(10 ** 6), gw={"water_table": "Y", "dates": ["2001/04/20"], "values": [round(zmax + 0.3, 2)]},
                         iwc={"wc_type": "Pct", "value": [pct]}, irr={"method": 1, "kw": {"SMT": [55] * 4}}))
    # minimum rooting depth / aeration threshold set by the user, with fallow days before the first planting date
    scs.append(S("Maize", "SandyLoam", seed=rnd.randrange(10 ** 6), lead=10, crop_kw={"Zmin": 0.5, "Aer": 12}))
    scs.append(S("Tomato", "Loam", seed=rnd.randrange(10 ** 6), lead=25, off_season=True, crop_kw={"Zmin": 0.45}, seasons=2))
    # a water table a few centimetres above the crop's maximum rooting depth, i.e. inside the lower half of the bottom compartment of the profile
    # the model deepens for the crop (the table stops the roots although it lies below every compartment centre)
    for crop, zmax in (("Wheat", 1.5), ("Maize", 2.3), ("Sorghum", 2.0)) if tier != "thorough" else (("Wheat", 1.5), ("Maize", 2.3), ("Sorghum", 2.0), ("Cotton", 2.0), ("Sunflower", 2.0), ("Barley", 1.3)):
        for eps in ((0.02,) if tier != "thorough" else (0.01, 0.02, 0.04)):
            scs.append(S(crop, "SandyLoam", seed=rnd.randrange(10 ** 6), irr={"method": 1, "kw": {"SMT": [70] * 4}},
                         gw={"water_table": "Y", "dates": ["2001/04/20"], "values": [round(zmax - eps, 2)]}))
    scs += L.hard_cases(rnd)
    return scs


def c06(tier, seed):
    rnd = random.Random(6000 + seed)
    scs = []
    sched = [["2001/05/01", 30], ["2001/05/25", 42.5], ["2001/06/20", 25], ["2002/05/10", 33], ["2001/02/01", 10]]
    irrs = [{"method": 0}, {"method": 1, "kw": {"SMT": [60, 70, 70, 50]}}, {"method": 1, "kw": {"SMT": [80] * 4, "MaxIrrSeason": 120}},
            {"method": 2, "kw": {"IrrInterval": 8, "AppEff": 80}}, {"method": 3, "schedule": sched},
            {"method": 4, "kw": {"NetIrrSMT": 70}}, {"method": 5, "kw": {"depth": 5, "MaxIrrSeason": 150}}]
    for i, irr in enumerate(irrs):
        crop = ["Maize", "Wheat", "Sorghum", "Tomato", "Barley", "Soybean", "Potato"][i]
        scs.append(S(crop, rnd.choice(["SandyLoam", "Loam", "ClayLoam"]), seed=seed + i, irr=irr, seasons=2,
                     iwc={"value": ["WP"]} if irr["method"] == 4 else None))
    # a season sown on 31 December (the CO2 level of a season is that of its planting year)
    scs.append(S("Barley", "Loam", seed=seed + 18, plant_md=(12, 31), year=2001, seasons=3, regime="warm"))
    # a CO2 series that rises and then stays on a plateau for consecutive planting years (C3 crop: the adjustment differs from year to year, then repeats)
    scs.append(S("Barley", "Loam", seed=seed + 19, seasons=4, co2={"co2_data": [[1990, 355.0], [2001, 371.0], [2002, 384.0], [2003, 384.0], [2004, 384.0], [2010, 395.0]]}))
    scs += [
        S("Maize", "Sand", seed=seed + 20, regime="arid", iwc={"value": ["WP"]}, wparams={"pwet": 0.0}),                 # early death
        S("Wheat", "LoamySand", seed=seed + 21, regime="hot", iwc={"wc_type": "Pct", "value": [15]}, wparams={"pwet": 0.0}, seasons=2),
        S("Barley", "SiltLoam", seed=seed + 22, seasons=4, irr={"method": 2, "kw": {"IrrInterval": 10}}),
        S("Tef", "Clay", seed=seed + 23, seasons=3, off_season=True, irr={"method": 1, "kw": {"SMT": [70] * 4}}),
        S("Sorghum", "Loam", seed=seed + 24, seasons=2, off_season=True, harvest_date="07/01", irr={"method": 5, "kw": {"depth": 3}}),
        S("MaizeGDD", "SandyLoam", seed=seed + 25, regime="hot", seasons=2, irr={"method": 4, "kw": {"NetIrrSMT": 60}}, iwc={"wc_type": "Pct", "value": [20]}),
        S("SugarBeet", "SiltClayLoam", seed=seed + 26, irr={"method": 3, "schedule": sched, "kw": {"MaxIrr": 35}}, seasons=2),
    ]
    # a dry-matter percentage of the harvested product overridden to values outside the range of the built-in crops (small, fractional, large):
    # fresh yield = dry yield / (YldWC / 100) for whatever YldWC the user configured
    scs.append(S("Tomato", "Loam", seed=seed + 40, crop_kw={"YldWC": 3}, irr={"method": 1, "kw": {"SMT": [70] * 4}}))
    scs.append(S("Wheat", "SandyLoam", seed=seed + 41, crop_kw={"YldWC": 1.25}, seasons=2))
    scs.append(S("Maize", "SiltLoam", seed=seed + 42, crop_kw={"YldWC": 99.5}))
    # the yield-formation productivity factor (WPy < 100) for determinate and indeterminate crops, built-in and by parameter override
    for j, (crop, kw) in enumerate([("Cotton", None), ("DryBean", None), ("Quinoa", None), ("Soybean", None), ("Sunflower", None),
                                    ("Tomato", {"WPy": 55}), ("Wheat", {"WPy": 70, "Determinant": 0}), ("Potato", {"WPy": 80})]):
        if tier != "thorough" and j % 2 == (seed % 2) and j > 2:
            continue
        scs.append(S(crop, rnd.choice(["Loam", "SandyLoam", "SiltLoam"]), seed=seed + 60 + j, crop_kw=kw, regime="hot" if crop == "Cotton" else None,
                     irr={"method": 1, "kw": {"SMT": [70] * 4}}))
    # crops that die DURING yield formation (good start, then a terminal drought of varying onset)
    for j, (crop, soil, onset) in enumerate([("Maize", "Sand", 62), ("Wheat", "LoamySand", 95), ("Sorghum", "Sand", 55), ("Barley", "Sand", 50),
                                            ("Maize", "LoamySand", 78), ("Tomato", "Sand", 60)]):
        import datetime as _dt
        d0 = _dt.date(2001, 4, 20) + _dt.timedelta(days=onset)
        scs.append(S(crop, soil, seed=seed + 40 + j, regime="warm", iwc={"value": ["FC"]},
                     events=[{"from": L.dstr(d0), "to": "2001/12/31", "P": 0, "ET0": 11, "Tmax": 36, "Tmin": 22}]))
    if tier == "thorough":
        for i in range(280):
            crop = rnd.choice([c for c in L.CROPS if L.MATURITY_CD[c] < 250])
            irr = rnd.choice(irrs + L.irr_variants(rnd, None, None, (4, 20), 2001))
            scs.append(S(crop, rnd.choice(L.SOILS), seed=rnd.randrange(10 ** 6), irr=irr, seasons=rnd.choice([1, 2, 2, 3]),
                         off_season=rnd.random() < 0.4, iwc=rnd.choice([None, {"value": ["WP"]}, {"wc_type": "Pct", "value": [25]}]),
                         regime=rnd.choice([None, "arid"]) if crop in L.CAL_CROPS else None,
                         harvest_date=rnd.choice([None, None, "08/15"]) if crop in L.CAL_CROPS and L.MATURITY_CD[crop] > 125 else None))
    scs += L.hard_cases(rnd)
    return scs


def c12(tier, seed):
    rnd = random.Random(12000 + seed)
    scs = [
        S("Maize", seed=seed + 1, soil_spec={"type": "SandyLoam", "kw": {"z_cn": 0.25, "z_germ": 0.15, "z_top": 0.22}}),
        S("AlfalfaGDD", "Default", seed=seed + 2),
        S("Wheat", seed=seed + 3, soil_spec={"type": "Loam", "kw": {"dz": [0.05, 0.1, 0.15, 0.2, 0.2, 0.2, 0.2, 0.2], "z_cn": 0.4, "z_germ": 0.33}}, seasons=2),
        S("Cotton", seed=seed + 4, regime="hot", soil_spec={"type": "ClayLoam", "kw": {"z_cn": 0.07, "z_germ": 0.07}}),
        S("Tomato", seed=seed + 5, soil_spec=dict(L.LAYERED_SOILS["uneven_dz"], **{"kw": dict(L.LAYERED_SOILS["uneven_dz"]["kw"], z_cn=0.12, z_germ=0.28)}), irr={"method": 1, "kw": {"SMT": [70] * 4}}),
        S("SunflowerGDD", seed=seed + 6, regime="hot", soil_spec={"type": "SiltLoam", "kw": {"z_cn": 0.55, "z_top": 0.35}}, seasons=2, off_season=True),
        S("Sorghum", seed=seed + 7, soil_spec={"type": "Sand", "kw": {"z_cn": 2.0, "z_germ": 1.9}}, gw={"water_table": "Y", "dates": ["2001/04/20"], "values": [1.4]}),
        S("MaizeGDD", seed=seed + 8, regime="hot", seasons=3, irr={"method": 3, "schedule": [["2001/06/01", 20], ["2002/06/01", 25]]},
          co2={"constant_conc": False}),
        # fallow days before the first planting date, with crops whose aeration / minimum-rooting parameters differ from the fallow filler's
        S("Barley", "Loam", seed=seed + 9, lead=20, seasons=2),
        S("PaddyRice", "Paddy", seed=seed + 10, lead=9, off_season=True, regime="monsoon", iwc={"value": ["FC", "FC"], "depth_layer": [1, 2]}),
        S("Wheat", "SandyLoam", seed=seed + 11, lead=5, crop_kw={"Zmin": 0.15, "Aer": 10}),
        # surface-layer depths that are not a whole number of centimetres
        S("Barley", seed=seed + 13, soil_spec={"type": "SiltLoam", "kw": {"z_top": 0.125, "z_cn": 0.255, "z_germ": 0.333, "evap_z_min": 0.155}}),
        # scheduled depths above the daily maximum (the cap is applied to the day's application, the schedule stays as given)
        S("Maize", "SandyLoam", seed=seed + 12, seasons=2, irr={"method": 3, "schedule": [["2001/05/15", 40], ["2001/06/15", 60], ["2002/06/01", 45]], "kw": {"MaxIrr": 25}}),
    ]
    n = 150 if tier == "thorough" else 4
    for i in range(n):
        dz = rnd.choice([[0.1] * 12, [0.05] * 4 + [0.1] * 8 + [0.2] * 2, [0.15] * 8, [0.2] * 6, [0.07, 0.13, 0.2, 0.2, 0.2, 0.2]])
        kw = {"dz": dz, "z_cn": round(rnd.uniform(0.03, 0.9), 2), "z_germ": round(rnd.uniform(0.03, 0.6), 2), "z_top": round(rnd.uniform(0.05, 0.4), 2)}
        crop = rnd.choice(L.CROPS)
        scs.append(S(crop, seed=rnd.randrange(10 ** 6), soil_spec={"type": rnd.choice(L.SOILS[:13]), "kw": kw},
                     seasons=rnd.choice([1, 2]) if L.MATURITY_CD[crop] < 250 else 1, off_season=rnd.random() < 0.4,
                     irr=rnd.choice(L.irr_variants(rnd, None, None, (4, 20), 2001)), field=rnd.choice(L.field_variants())))
    scs += L.hard_cases(rnd)
    return scs


def c13(tier, seed):
    rnd = random.Random(13000 + seed)
    scs = []

    def sched(year, n):
        p = dt.date(year, 4, 20)
        return [[L.dstr(p + dt.timedelta(days=rnd.randrange(-30, 230))), rnd.choice([5, 18.5, 30, 60])] for _ in range(n)]
    # threshold strategy: configurations whose decision on a given day discriminates between the growth stages' thresholds
    for j, (smt, pct) in enumerate([([70, 70, 70, 0], 40), ([10, 80, 80, 90], 50), ([90, 20, 60, 40], 35), ([30, 90, 30, 90], 45)]):
        scs.append(S(["Maize", "Wheat", "Tomato", "Sorghum"][j], ["SandyLoam", "Loam", "Clay", "Sand"][j], seed=seed + 70 + j, regime="arid",
                     irr={"method": 1, "kw": {"SMT": smt}}, iwc={"wc_type": "Pct", "value": [pct]}, seasons=2, off_season=(j % 2 == 1)))
    # a zero target (allowable depletion = 100 % of TAW) on a root zone at wilting point: the estimated depletion (incl. the day's demand) exceeds TAW,
    # so the threshold IS exceeded and water is due - the boundary value of the threshold list
    scs.append(S("Wheat", "SandyLoam", seed=seed + 75, regime="arid", irr={"method": 1, "kw": {"SMT": [0, 0, 0, 0], "MaxIrr": 30}}, iwc={"value": ["WP"]}, seasons=2))
    scs.append(S("Maize", "Loam", seed=seed + 76, regime="arid", irr={"method": 1, "kw": {"SMT": [0, 50, 0, 50]}}, iwc={"value": ["WP"]}))
    # schedules with records outside the simulation window (before the start, after the end), several seasons
    for j, (crop, seasons, lead) in enumerate([("Maize", 2, 0), ("Sorghum", 3, 12), ("Tomato", 2, 0)]):
        p0 = dt.date(2001, 4, 20)
        recs = [[L.dstr(p0 + dt.timedelta(days=d)), a] for d, a in ((8, 22), (30, 35), (61, 18), (365 + 15, 27), (365 + 70, 31))]
        recs += [[L.dstr(p0 - dt.timedelta(days=lead + k)), 20 + k % 7] for k in (45, 60, 75, 90, 110, 130)]          # before the start
        recs += [[L.dstr(p0 + dt.timedelta(days=365 * seasons + 300)), 25]]                                          # after the end
        scs.append(S(crop, ["SandyLoam", "Loam", "Clay"][j], seed=seed + 90 + j, seasons=seasons, lead=lead, regime="arid",
                     irr={"method": 3, "schedule": recs, "kw": {"MaxIrr": 30}}))
    n_each = 40 if tier == "thorough" else 3
    for method in range(6):
        for j in range(n_each):
            kw = {"MaxIrr": rnd.choice([25, 10, 40, 0]) if j % 3 else 25,
                  "MaxIrrSeason": rnd.choice([10000, 60, 150, 0]) if j % 2 else 10000,
                  "AppEff": rnd.choice([100, 85, 60, 50])}
            spec = {"method": method, "kw": kw}
            if method == 1:
                kw["SMT"] = [rnd.choice([20, 50, 80, 100]) for _ in range(4)]
            if method == 2:
                kw["IrrInterval"] = rnd.choice([1, 2, 3, 5, 7, 10])
            if method == 3:
                spec["schedule"] = sched(2001, rnd.choice([0, 3, 8]))
            if method == 4:
                kw["NetIrrSMT"] = rnd.choice([30, 60, 90])
            if method == 5:
                kw["depth"] = rnd.choice([0, 2.5, 8, 30])
            crop = rnd.choice(["Maize", "Wheat", "Tomato", "Sorghum", "Potato", "Barley", "MaizeGDD", "SoybeanGDD"])
            scs.append(S(crop, rnd.choice(["SandyLoam", "Loam", "Clay", "Sand"]), seed=rnd.randrange(10 ** 6), irr=spec,
                         regime=rnd.choice(["arid", "warm"]) if crop in L.CAL_CROPS else None,
                         seasons=rnd.choice([1, 2]), off_season=rnd.random() < 0.4, lead=rnd.choice([0, 10]),
                         iwc=rnd.choice([None, {"value": ["WP"]}])))
    # thresholds at (almost) 100 % of TAW in wet weather: the root zone is often ABOVE field capacity, where the estimate subtracts the excess water
    scs.append(S("Maize", "ClayLoam", seed=seed + 92, regime="wet", irr={"method": 1, "kw": {"SMT": [100, 97, 95, 100], "AppEff": 80, "MaxIrr": 30}}))
    scs.append(S("Tomato", "SandyLoam", seed=seed + 93, regime="warm", irr={"method": 1, "kw": {"SMT": [100] * 4, "MaxIrr": 6}}))
    # constant-depth strategy with the depth specified from outside between calls (the documented use: IrrMngt.depth is set before each step)
    scs.append(S("Sorghum", "Loam", seed=seed + 91, irr={"method": 5, "kw": {"depth": 0, "MaxIrr": 20}, "depth_plan": [[20, 6.0], [45, 0.0], [60, 12.5], [61, 3.0], [90, 30.0]]}))
    # a dated schedule on a management object that served ANOTHER model before (a window of the same length a year earlier; the same window with
    # another schedule is the table's own business): the schedule stays bound BY DATE
    sch2 = [["2001/05/05", 30], ["2001/06/10", 40], ["2001/07/03", 18], ["2002/05/08", 25], ["2002/06/20", 35], ["2002/07/15", 22]]
    b = S("Maize", "SandyLoam", seed=seed + 90, year=2002, irr={"method": 3, "schedule": sch2, "kw": {"MaxIrr": 35}})
    b["_prelude"] = {"start": b["start"].replace("2002", "2001"), "end": b["end"].replace("2002", "2001")}
    scs.append(b)
    scs += L.hard_cases(rnd)
    return scs


def c19(tier, seed):
    rnd = random.Random(19000 + seed)
    scs = []
    n = 160 if tier == "thorough" else 16
    for i in range(n):
        crop = rnd.choice(["Wheat", "Maize", "Barley", "Tomato", "Potato", "Sorghum", "PaddyRice", "Quinoa", "SugarBeet", "Tef", "BarleyGDD", "WheatGDD"])
        soil = rnd.choice(L.SOILS)
        year = 2001
        start = "2001/04/20"
        kind = i % 4
        if kind == 0:
            gw = {"water_table": "Y", "dates": [start], "values": [rnd.choice([0.4, 0.8, 1.2, 1.9, 2.7, 4.5])]}
        elif kind == 1:
            # observations before, inside and after the simulation window
            gw = {"water_table": "Y", "method": "Variable", "dates": [["2001/03/01", "2001/06/15", "2001/08/20", "2002/01/05"],
                                                                      ["2001/05/10", "2001/06/15", "2001/08/20"],
                                                                      ["2000/11/15", "2001/07/01"],
                                                                      ["2001/04/20", "2001/07/01"]][(i // 4) % 4],
                  "values": [rnd.choice([2.5, 1.5]), rnd.choice([0.5, 0.9]), rnd.choice([1.4, 3.0]), 2.0]}
            gw["values"] = gw["values"][:len(gw["dates"])]
        elif kind == 2:
            gw = {"water_table": "Y", "method": "Constant", "dates": ["2001/04/01", "2001/06/01", "2001/07/15"], "values": [1.6, rnd.choice([0.6, 1.0]), 2.2]}
        else:
            gw = {"water_table": "Y", "dates": [start], "values": [rnd.choice([12.0, 40.0])]}
        nl = 2 if soil in ("Paddy", "ac_TunisLocal") else 1
        scs.append(S(crop, soil, seed=rnd.randrange(10 ** 6), gw=gw, irr=rnd.choice([None, {"method": 1, "kw": {"SMT": [60] * 4}}, {"method": 4}, {"method": 2}]),
                     off_season=rnd.random() < 0.3, lead=rnd.choice([0, 15]),
                     iwc=rnd.choice([{"value": ["FC"] * nl, "depth_layer": list(range(1, nl + 1))}, {"value": ["WP"] * nl, "depth_layer": list(range(1, nl + 1))}])))
    # no table at all: CR = GwIn = 0
    scs.append(S("Maize", "Loam", seed=seed + 7))
    # the table FALLS by metres from one day to the next (Constant method): the adjusted field capacity of the day is computed from the day's depth
    for k, (soil, z0, z1) in enumerate([("SandyLoam", 0.9, 8.0), ("Loam", 0.6, 3.0), ("Clay", 1.2, 4.5)]):
        scs.append(S(["Wheat", "Tomato", "Maize"][k], soil, seed=rnd.randrange(10 ** 6),
                     gw={"water_table": "Y", "method": "Constant", "dates": ["2001/04/20", "2001/06/05", "2001/07/20"], "values": [z0, z1, z0 + 0.3]}))
    # observation dates handed over as datetime.date objects / day-resolution numpy datetimes / Timestamps (not strings)
    for k, dt_ in enumerate(("date", "np64", "timestamp")):
        scs.append(S(["Wheat", "Tomato", "Barley"][k], ["Loam", "SandyLoam", "ClayLoam"][k], seed=rnd.randrange(10 ** 6),
                     gw={"water_table": "Y", "method": "Variable", "dates": ["2001/04/01", "2001/06/15", "2001/09/30"], "values": [1.0, 2.2, 1.3], "_date_type": dt_}))
        scs.append(S(["Maize", "Potato", "Sorghum"][k], "Loam", seed=rnd.randrange(10 ** 6),
                     gw={"water_table": "Y", "method": "Constant", "dates": ["2001/04/20", "2001/07/01"], "values": [1.8, 0.9], "_date_type": dt_}))
    # the table JUMPS up by several compartments from one day to the next (Constant method, several observations), the day after a storm has
    # saturated the upper part of the profile: every compartment now under the table must be filled, not only those above the first saturated one
    import datetime as _dt
    p0 = _dt.date(2001, 4, 20)
    for k, (soil, z1, storm) in enumerate([("Loam", 0.32, 120), ("SandyLoam", 0.55, 90), ("ClayLoam", 0.85, 150)] if tier != "thorough" else
                                          [(so, z, st) for so in ("Loam", "SandyLoam", "ClayLoam", "Sand") for z in (0.32, 0.55, 0.85) for st in (60, 120)]):
        for day in ((3,) if tier != "thorough" else (3, 60)):
            scs.append(S("Tomato", soil, seed=rnd.randrange(10 ** 6), gw={"water_table": "Y", "method": "Constant", "dates": [L.dstr(p0), L.dstr(p0 + _dt.timedelta(days=day))], "values": [4.0, z1]},
                         events=[{"date": L.dstr(p0 + _dt.timedelta(days=day - 1)), "P": storm}]))
    scs += L.hard_cases(rnd, 8)
    return scs
