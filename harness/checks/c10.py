"""C10 - runs are deterministic and model instances are isolated."""
import json
import random
import subprocess

import common as C
import equiv as E
import scenlib as L
import tlc
from checks import equivbase

PROP = "C10"


def tlc_histories(max_ops):
    cfg = ("CONSTANTS\n Inst = {1, 2}\n Cfgs = {1, 2, 3}\n StepSizes = {1, 4}\n MaxOps = %d\n Horizon = 6\n BadCfgs = {8, 9}\n"
           "SPECIFICATION Spec\nINVARIANT Isolation\nINVARIANT Export\nPROPERTY NonInterference\nCHECK_DEADLOCK FALSE\n" % max_ops)
    tla = "---- MODULE MC_HistGen ----\nEXTENDS Histories\n====\n"
    wd = tlc.scratch("verif_hist_")
    import os, shutil
    try:
        for f in os.listdir(tlc.SPEC_DIR):
            if f.endswith(".tla"):
                os.symlink(os.path.join(tlc.SPEC_DIR, f), os.path.join(wd, f))
        open(os.path.join(wd, "MC_HistGen.tla"), "w").write(tla)
        open(os.path.join(wd, "MC_HistGen.cfg"), "w").write(cfg)
        cmd = tlc._java("4g") + ["-workers", "1", "-metadir", os.path.join(wd, "m"), "-noGenerateSpecTE", "-config", "MC_HistGen.cfg", "MC_HistGen.tla"]
        p = subprocess.run(cmd, cwd=wd, capture_output=True, text=True, timeout=900)
        out = p.stdout + p.stderr
        st = tlc.parse_mc_output(out)
        if st["violated"] or st["fatal"] or "Model checking completed" not in out:
            raise tlc.TLCError("Histories instance failed:\n" + out[-3000:])
        hs = []
        for line in out.splitlines():
            line = line.strip()
            if line.startswith('"[\\"HISTORY\\"'):
                hs.append(json.loads(json.loads(line))[1])
        return hs, st
    finally:
        shutil.rmtree(wd, ignore_errors=True)


def run(tier, seed):
    rnd = random.Random(1000 + seed)
    S = L.scenario
    # configurations that share every "identity" a careless cache could key on (soil type name 'custom', crop name, object defaults)
    # but differ in content; two of them have a shallow water table (capillary-rise parameters are derived per soil)
    sandy = {"type": "custom", "kw": {"dz": [0.1] * 12}, "layers": [[1.2, 0.06, 0.13, 0.36, 3000.0, 100]]}
    loamy = {"type": "custom", "kw": {"dz": [0.1] * 12}, "layers": [[1.2, 0.15, 0.31, 0.46, 500.0, 100]]}
    cfgs = {1: S("Wheat", seed=seed + 1, soil_spec=sandy, gw={"water_table": "Y", "dates": ["2001/04/20"], "values": [2.0]}, irr={"method": 1, "kw": {"SMT": [60] * 4}}),
            # several observation dates / schedule records / CO2 years: any ordering that depended on hashing would show across hash seeds
            2: S("Wheat", seed=seed + 1, soil_spec=loamy, gw={"water_table": "Y", "method": "Constant", "dates": ["2001/04/20", "2001/06/01", "2001/07/15", "2001/08/20"], "values": [2.0, 1.2, 0.9, 1.6]},
                 crop_kw={"Zmax": 1.0}, co2={"co2_data": [[1990, 355.0], [2000, 369.5], [2001, 371.0], [2010, 390.0]]}),
            # another period (other CO2 concentrations, other weather rows), two seasons, default CO2 object like configuration 1
            3: S("Tomato", "Default", seed=seed + 3, year=2004, seasons=2, irr={"method": 3, "schedule": [["2004/05/05", 30], ["2004/06/01", 20], ["2004/06/20", 25], ["2005/07/04", 15], ["2005/07/30", 28]]}, crop_kw={"Zmax": 1.6},
                 gw={"water_table": "Y", "method": "Variable", "dates": ["2004/04/20", "2004/06/10", "2004/08/01", "2005/09/15"], "values": [2.2, 1.4, 1.0, 1.9]})}
    # instance 1's objects rely on the constructors' defaults wherever it can (defaults are shared by every later object of the class)
    cfgs[1]["iwc"] = {}
    cfgs[1]["crop"] = dict(cfgs[1]["crop"], kw={"SwitchGDD": 1})
    # configurations the model rejects, built from constructor defaults + one argument (Reject action of the specification)
    cfgs[8] = dict(S("Wheat", seed=seed + 1, soil_spec=sandy), gw={"water_table": "Y"})
    cfgs[9] = dict(S("Wheat", seed=seed + 1, soil_spec=loamy), iwc={"depth_layer": [1, 2]})
    hs, st = tlc_histories(6 if tier == "thorough" else 5)
    rnd.shuffle(hs)
    # only histories in which at least one instance has been stepped
    hs = [h for h in hs if any(o["op"] in ("step", "finish") for o in h)]
    # (histories with a re-run first: they are few among all interleavings)
    rer = [h for h in hs if any(o["op"] == "rerun" for o in h)]
    hs = rer[: (12 if tier != "thorough" else 80)] + [h for h in hs if not any(o["op"] == "rerun" for o in h)]
    nh = 300 if tier == "thorough" else 36
    jobs, pairs = [], []
    # in the code one abstract "day unit" of the model is 40 simulated days (Horizon 6 -> finish)
    UNIT = 40
    solo = {}
    for h in hs[:nh]:
        ops = []
        for o in h:
            if o["op"] in ("new", "reject"):
                ops.append({"op": o["op"], "i": o["i"], "c": o["c"]})
            elif o["op"] == "step":
                ops.append({"op": "step", "i": o["i"], "k": o["k"] * UNIT})
            elif o["op"] == "rerun":
                ops.append({"op": "rerun", "i": o["i"]})
            else:
                ops.append({"op": "finish", "i": o["i"]})
        for target in sorted({o["i"] for o in h if o["op"] in ("step", "finish")}):
            own = [o for o in ops if o["i"] == target and o["op"] != "reject"]
            # own history after the last 'new'
            last_new = max(i for i, o in enumerate(own) if o["op"] == "new")
            own = own[last_new:]
            c = own[0]["c"]
            if any(o["op"] == "rerun" for o in own):
                own = [own[0], {"op": "finish", "i": target}]          # after a re-run the instance holds the result of a fresh run to termination
            slices = [0 if o["op"] == "finish" else o["k"] for o in own[1:]]
            if not slices:
                continue
            key = (c, tuple(slices))
            if key not in solo:
                jobs.append({"kind": "sliced", "scenario": cfgs[c], "slices": slices})
                solo[key] = len(jobs) - 1
            jobs.append({"kind": "history", "configs": {str(k): v for k, v in cfgs.items()}, "ops": [dict(o, c=str(o["c"])) if "c" in o else o for o in ops], "target": target})
            pairs.append({"a": solo[key], "b": len(jobs) - 1, "rule": "identity", "scenario": cfgs[c],
                          "label": {"history": [(o["op"], o["i"], o.get("c", o.get("k", ""))) for o in h], "target": target}})
    # the SAME user objects (soil, crop, management, groundwater, CO2, weather table) handed to two different models: model A over another window is
    # built from them and run, then model B from the very same objects - B must give what B gives alone with fresh objects (equiv.build, "_prelude")
    sched = [["2001/05/05", 30], ["2001/06/10", 40], ["2002/05/08", 25], ["2002/06/20", 35], ["2003/05/15", 22]]
    shared = [S("Maize", "SandyLoam", seed=seed + 31, year=2002, irr={"method": 3, "schedule": sched}),
              S("Tomato", "Clay", seed=seed + 32, year=2002, co2={"constant_conc": True}),
              S("Barley", "Loam", seed=seed + 33, year=2002, co2={"co2_data": [[1990, 355.0], [2001, 371.0], [2002, 384.0], [2010, 395.0]]}),
              S("Wheat", "Loam", seed=seed + 34, year=2002),
              S("MaizeGDD", "Default", seed=seed + 35, year=2002, regime="hot"),
              S("Potato", "Sand", seed=seed + 36, year=2002, gw={"water_table": "Y", "method": "Variable", "dates": ["2001/01/01", "2002/07/01", "2003/12/31"], "values": [2.0, 0.8, 1.7]},
                field={"bunds": True, "z_bund": 0.05, "bund_water": 80}),
              S("PaddyRice", "Paddy", seed=seed + 37, year=2002, regime="monsoon", field={"bunds": True, "z_bund": 0.05}, irr={"method": 5, "kw": {"depth": 20}},
                iwc={"value": ["FC", "FC"], "depth_layer": [1, 2]})]
    if tier == "thorough":
        shared += [S(c, rnd.choice(L.SOILS), seed=rnd.randrange(10 ** 6), year=2002, irr=rnd.choice(L.irr_variants(rnd, None, None, (4, 20), 2002)),
                     co2=rnd.choice([None, {"constant_conc": True}, {"constant_conc": True, "current_concentration": 480.0}]),
                     field=rnd.choice(L.field_variants())) for c in rnd.sample([c for c in L.CROPS if L.MATURITY_CD[c] < 240], 12)]
    for sc in shared:
        a = len(jobs)
        jobs.append({"kind": "plain", "scenario": sc})
        for pre in ({"start": sc["start"].replace("2002", "2001"), "end": sc["end"].replace("2002", "2001")},       # same length, a year earlier
                    {"start": "2001/02/01", "end": sc["end"]}):                                                    # a longer window containing B's
            b = dict(sc)
            b["_prelude"] = pre
            jobs.append({"kind": "plain", "scenario": b})
            pairs.append({"a": a, "b": len(jobs) - 1, "rule": "identity", "scenario": b, "label": {"shared_objects_after": pre, "crop": sc["crop"]["name"]}})
    # determinism across fresh interpreter processes and hash seeds: results computed in subprocesses
    presup = {}
    for c, sc in cfgs.items():
        if c in (8, 9):
            continue
        base = len(jobs)
        jobs.append({"kind": "plain", "scenario": sc})
        presup[base] = E.run_job_subprocess(jobs[base], hashseed="0")
        for hsd in (["1", "2", "3", "random", "12345", "777"] if tier == "thorough" else ["1", "2", "random"]):
            jobs.append({"kind": "plain", "scenario": sc})
            j = len(jobs) - 1
            presup[j] = E.run_job_subprocess(jobs[j], hashseed=hsd)
            pairs.append({"a": base, "b": j, "rule": "identity", "scenario": sc, "label": {"process": "fresh", "hashseed": hsd, "cfg": c}})
        # in-process (worker pool, other models run before) vs fresh process
        jobs.append({"kind": "plain", "scenario": sc})
        pairs.append({"a": base, "b": len(jobs) - 1, "rule": "identity", "scenario": sc, "label": {"process": "pool-worker vs fresh", "cfg": c}})
    # the same inputs spelled differently: defaults left out (the constructors' own literals) vs stated explicitly as values that went through JSON / pickle
    imp = S("Wheat", "Loam", seed=seed + 60, gw={"water_table": "Y", "dates": ["2001/04/20"], "values": [1.3]}, iwc={"value": ["FC"]})
    exp = dict(imp, iwc={"wc_type": "Prop", "method": "Layer", "depth_layer": [1], "value": ["FC"]},
               gw={"water_table": "Y", "method": "Constant", "dates": ["2001/04/20"], "values": [1.3]})
    ja = len(jobs); jobs.append({"kind": "plain", "scenario": imp}); presup[ja] = E.run_job_subprocess(jobs[ja], hashseed="0")
    jb = len(jobs); jobs.append({"kind": "plain", "scenario": exp}); presup[jb] = E.run_job_subprocess(jobs[jb], hashseed="0")
    jc = len(jobs); jobs.append({"kind": "plain", "scenario": exp})
    pairs.append({"a": ja, "b": jb, "rule": "identity", "scenario": exp, "label": {"defaults": "implicit vs explicit (fresh processes)"}})
    pairs.append({"a": ja, "b": jc, "rule": "identity", "scenario": exp, "label": {"defaults": "implicit (fresh process) vs explicit (pool worker)"}})
    return equivbase.equiv_check(PROP, tier, seed, jobs, pairs, presupplied=presup,
                                 rule_text="C10: TLC enumerates every interleaving of New/Step/Finish over two instances (spec/Histories.tla); sampled "
                                           "behaviours are replayed in one process and each instance is compared with its solo baseline; plus fresh "
                                           "interpreter processes with different PYTHONHASHSEED",
                                 extra={"histories_enumerated_by_tlc": len(hs), "histories_model_states": st["states"]},
                                 mc_states=st["states"])


def replay(path):
    return equivbase.replay_pair(path, PROP)
