"""Generic two-run check: execute jobs on the code, let TLC (spec/Equiv.tla) judge the pairs."""
import json
import time

import common as C
import equiv as E
import tlc
from checks import tracebase


def _get(results, ref):
    """ref: int (job index -> tables) or (int, 'first')"""
    if isinstance(ref, (tuple, list)):
        r = results[ref[0]]
        return r.get(ref[1]) if r.get("ok") or ref[1] in r else None, r
    r = results[ref]
    return (r.get("tables") if r.get("ok") else None), r


def equiv_check(prop, tier, seed, jobs, pairs, mcs=None, mc_generated=None, job_timeout=300, level="model_checking",
                rule_text="", expect_ok=None, extra=None, presupplied=None, merge=False, mc_states=0):
    """jobs: list of job dicts (equiv.exec_job); pairs: list of dict(a=ref, b=ref, rule=..., cut=..., label=..., scenario=...)
    presupplied: dict jobIndex -> result (e.g. results computed in fresh subprocesses)"""
    t0 = time.time()
    mc = tracebase.run_mc_list(mcs, tier) if mcs else {"states": 0, "distinct": 0, "instances": []}
    if mc_states:
        mc["states"] += mc_states
        mc["instances"].append({"module": "Histories (generated instance, behaviours exported for replay)", "states": mc_states})
    if mc_generated:
        for name, tla, cfg, tmo in mc_generated:
            r = tlc.run_mc_generated(name, tla, cfg, timeout=tmo)
            if r["violated"] or not r["completed"]:
                raise tlc.TLCError(f"specification instance {name}: violated={r['violated']} completed={r['completed']}\n" + r["raw_tail"][-1500:])
            mc["states"] += r["states"]
            mc["distinct"] += r["distinct"]
            mc["instances"].append({"module": name + " (generated)", "states": r["states"], "distinct": r["distinct"], "wall_s": r["wall_s"], "actions": r["coverage"]})
    todo = [j for i, j in enumerate(jobs) if not (presupplied and i in presupplied)]
    res_todo = E.run_jobs(todo, timeout=job_timeout)
    results = []
    it = iter(res_todo)
    for i, j in enumerate(jobs):
        results.append(presupplied[i] if (presupplied and i in presupplied) else next(it))
    V = C.Verdicts(prop)
    docs, meta = [], []
    failed_jobs = set()
    skipped = []
    for p in pairs:
        ta, ra = _get(results, p["a"])
        tb, rb = _get(results, p["b"])
        for t, r, side in ((ta, ra, "a"), (tb, rb, "b")):
            if t is None:
                jid = p[side][0] if isinstance(p[side], (tuple, list)) else p[side]
                if (jid, side) in failed_jobs:
                    continue
                failed_jobs.add((jid, side))
                err = r.get("error", {})
                if p.get("baseline_may_fail") and side == "a":
                    continue
                key = f"exception.{err.get('type')}"
                if C.documented_rejection(err):
                    # a documented rejection is a legitimate outcome of a configuration - but two configurations that the property declares
                    # equivalent (rule identity) must be accepted or rejected TOGETHER: the variant rejected while the baseline ran is an effect
                    if not (side == "b" and ta is not None and p.get("rule") == "identity" and not p.get("b_may_reject")):
                        skipped.append({"label": p.get("label"), "reason": err.get("msg")})
                        continue
                    key = f"rejectedVariant.{err.get('type')}"
                V.add(key, p.get("scenario"), {"label": p.get("label"), "side": side, "error": err, "job": jobs[jid] if jid < len(jobs) else None})
        if ta is None or tb is None:
            continue
        rule = p["rule"](ta) if callable(p["rule"]) else p["rule"]
        cut = p["cut"](ta) if callable(p.get("cut")) else p.get("cut")
        p = dict(p, rule=rule, cut=cut)
        d = E.pair_doc(rule, ta, tb, cut=cut)
        if p.get("calls") is not None:
            d["calls"] = p["calls"](rb) if callable(p["calls"]) else p["calls"]
            d["T"] = p["T"](ta) if callable(p["T"]) else p["T"]
        docs.append(d)
        meta.append(p)
    verdicts, tstats = tlc.validate_pairs(docs)
    compared_rows = 0
    for v, p in zip(verdicts, meta):
        compared_rows += v.get("compared", 0)
        if not v["ok"]:
            why = "rows" if v["nBad"] else ("stats" if not v["stats"] else ("calls" if not v.get("calls", True) else ("crops" if not v.get("crops", True) else "shape")))
            key = f"{p['rule']}.{why}"
            V.add(key, p.get("scenario"), {"label": p.get("label"), "verdict": v, "jobs": [jobs[x[0] if isinstance(x, (tuple, list)) else x] for x in (p["a"], p["b"])]})
    rc = V.report()
    cov = {"states": max(1, mc["states"] + tstats["states"]), "transitions": max(1, mc["states"] + tstats["states"]),
           "traces_validated_against_impl": len(docs),
           "samples": [{"label": p.get("label"), "rule": p["rule"]} for p in meta[:8]] or [{"label": "none"}],
           "evaluations": len(jobs), "distinct_nontrivial": len({json.dumps(p.get("label"), sort_keys=True, default=str) for p in meta if True}),
           "rule": "one evaluation = one execution job on the real code (a run, a sliced run, a history, a re-run); a pair = two "
                   "result tables judged by TLC with spec/Equiv.tla; distinct = distinct pair labels. " + rule_text,
           "pairs_judged": len(docs), "rows_compared": compared_rows, "jobs_failed": len(failed_jobs),
           "model_instances": mc["instances"], "model_states_generated": mc["states"], "pair_jvms": tstats["jvms"],
           "known_findings_hit": V.known_hits, "exhaustive": False,
           "pairs_skipped_documented_rejection": skipped[:20], "n_pairs_skipped": len(skipped)}
    if extra:
        cov.update(extra)
    if merge:
        import os
        p = os.path.join(C.EVID, prop + ".json")
        ev = json.load(open(p))
        ev["coverage"]["states"] += cov["states"]
        ev["coverage"]["transitions"] += cov["transitions"]
        ev["coverage"]["traces_validated_against_impl"] += cov["traces_validated_against_impl"]
        ev["coverage"]["evaluations"] += cov["evaluations"]
        ev["coverage"]["distinct_nontrivial"] += cov["distinct_nontrivial"]
        ev["coverage"]["equivalence"] = {k: cov[k] for k in ("pairs_judged", "rows_compared", "jobs_failed", "samples", "rule", "n_pairs_skipped")}
        ev["coverage"]["model_instances"] = ev["coverage"].get("model_instances", []) + cov["model_instances"]
        ev["violations"] = ev.get("violations", 0) + len(V.new)
        ev["wall_s"] = round(ev.get("wall_s", 0) + time.time() - t0, 2)
        json.dump(ev, open(p, "w"), indent=1)
        return rc
    C.write_evidence(prop, tier, seed, level, cov, time.time() - t0, len(V.new),
                     assumptions=["TLC 1.8 / CommunityModules Json", "row digests = blake2b over IEEE bit patterns with canonical NaN",
                                  "two-run property: TLC judges the recorded pairs, it does not prove equivalence for unobserved inputs"])
    return rc


def replay_pair(path, prop):
    rep = json.load(open(path))
    jobs = rep["detail"].get("jobs") or ([rep["detail"]["job"]] if rep["detail"].get("job") else [])
    if not jobs:
        print("no jobs recorded")
        return 1
    rs = E.run_jobs(jobs)
    for j, r in zip(jobs, rs):
        print(j.get("kind"), "ok" if r.get("ok") else r.get("error"))
    if len(rs) == 2 and all(r.get("ok") for r in rs):
        label = rep["detail"].get("label") or {}
        rule = rep["key"].split(".")[0]
        v, _ = tlc.validate_pairs([E.pair_doc(rule, rs[0]["tables"], rs[1]["tables"], cut=(rep["detail"].get("verdict") or {}).get("cut"))])
        print(v[0])
        return 0 if v[0]["ok"] else 1
    return 1
