"""Scenario families for the soil-water properties C01-C04 (each property draws its own set)."""
import random
import scenlib as L

DRY = {"value": ["WP"]}
SAT = {"value": ["SAT"]}


def c01(tier, seed):
    rnd = random.Random(1000 + seed)
    y = 2001
    S = L.scenario
    scs = [
        S("Maize", "SandyLoam", seed=seed + 1, field={"bunds": True, "z_bund": 0.12, "bund_water": 30}, irr={"method": 5, "kw": {"depth": 6}}, off_season=True, lead=15),
        S("Wheat", "Clay", seed=seed + 2, field={"mulches": True, "mulch_pct": 70, "f_mulch": 0.5}, irr={"method": 1, "kw": {"SMT": [70] * 4, "AppEff": 70}}),
        S("Tomato", seed=seed + 3, soil_spec=L.LAYERED_SOILS["three_layer"], iwc={"value": ["FC", "WP", "FC"], "depth_layer": [1, 2, 3]}, irr={"method": 2, "kw": {"IrrInterval": 5}}),
        S("Sorghum", "Loam", seed=seed + 4, seasons=2, irr={"method": 4, "kw": {"NetIrrSMT": 75}}, iwc=DRY),
        S("Potato", "SiltLoam", seed=seed + 5, gw={"water_table": "Y", "dates": ["2001/04/20"], "values": [0.9]}, irr={"method": 0}),
        S("Barley", "Sand", seed=seed + 6, events=L.storm_events(y, (4, 20)), off_season=True, seasons=2, tail=20),
        S("Quinoa", seed=seed + 7, soil_spec=L.LAYERED_SOILS["low_ksat"], events=L.storm_events(y, (4, 20), (200, 90)), iwc={"value": ["SAT", "SAT"], "depth_layer": [1, 2]}),
        S("Soybean", "SandyClayLoam", seed=seed + 8, events=L.drought_events(y, (4, 20)), irr={"method": 3, "schedule": [["2001/05/05", 30], ["2001/06/10", 45.5], ["2001/07/20", 25]], "kw": {"AppEff": 80}}),
        S("PaddyRice", "Paddy", seed=seed + 9, field={"bunds": True, "z_bund": 0.2, "bund_water": 50}, fallow={"bunds": True, "z_bund": 0.05}, off_season=True, seasons=2, iwc={"value": ["SAT", "SAT"], "depth_layer": [1, 2]}, regime="monsoon"),
        S("Sunflower", "ClayLoam", seed=seed + 10, gw={"water_table": "Y", "method": "Variable", "dates": ["2001/04/20", "2001/07/01", "2001/09/30"], "values": [2.2, 0.8, 1.9]}, irr={"method": 4, "kw": {"NetIrrSMT": 50}}, iwc={"wc_type": "Pct", "value": [40]}),
        S("Cotton", "SiltClay", seed=seed + 11, regime="hot", field={"sr_inhb": True}, irr={"method": 1, "kw": {"SMT": [50, 60, 70, 40], "MaxIrr": 15}}),
        S("MaizeGDD", "LoamySand", seed=seed + 12, regime="hot", lead=25, off_season=True, fallow={"mulches": True, "mulch_pct": 100, "f_mulch": 0.8}),
        # impeding subsoil + saturation on non-uniform compartment grids (custom, and the grid the model deepens for deep roots)
        S("Tomato", seed=seed + 13, soil_spec=L.LAYERED_SOILS["impeding_uneven"], iwc={"value": ["SAT", "SAT"], "depth_layer": [1, 2]}, events=L.storm_events(y, (4, 20), (120, 60, 60, 60))),
        S("Maize", seed=seed + 14, soil_spec=L.LAYERED_SOILS["low_ksat"], iwc={"value": ["SAT", "SAT"], "depth_layer": [1, 2]}, regime="wet"),
        # bunds in season only, water still standing when the season ends, off-season simulated (bunds removed with water behind them)
        S("PaddyRice", "Paddy", seed=seed + 15, regime="monsoon", field={"bunds": True, "z_bund": 0.2, "bund_water": 100}, off_season=True, seasons=2,
          iwc={"value": ["SAT", "SAT"], "depth_layer": [1, 2]}),
        S("PaddyRiceGDD", "Paddy", seed=seed + 16, regime="monsoon", fallow={"bunds": True, "z_bund": 0.15, "bund_water": 60}, off_season=True, lead=30,
          iwc={"value": ["SAT", "SAT"], "depth_layer": [1, 2]}),
    ]
    # a model whose profile has the same number of compartments and the same depth as that of a model run BEFORE it in the same process, but another
    # split of the surface compartments (nothing computed for one profile may be reused for the other)
    b = S("Tomato", seed=seed + 17, soil_spec={"type": "SandyLoam", "kw": {"dz": [0.05, 0.05] + [0.1] * 9 + [0.2]}})
    b["_prelude"] = {"soil": {"type": "SandyLoam"}}
    scs.append(b)
    b = S("Potato", seed=seed + 18, soil_spec={"type": "Clay", "kw": {"dz": [0.2, 0.2, 0.1, 0.1, 0.1, 0.1, 0.1, 0.1, 0.1, 0.1]}}, events=L.storm_events(y, (4, 20), (60, 90)))
    b["_prelude"] = {"soil": {"type": "Clay", "kw": {"dz": [0.1] * 8 + [0.2, 0.2]}}}
    scs.append(b)
    if tier == "thorough":
        scs += L.diverse(rnd, 240, focus="no_restrictive") + L.hard_cases(rnd)
    else:
        scs += L.diverse(rnd, 6, focus="no_restrictive") + L.hard_cases(rnd)
    return scs


def c02(tier, seed):
    rnd = random.Random(2000 + seed)
    y = 2001
    S = L.scenario
    big = L.storm_events(y, (4, 20), (300, 120, 40, 75))
    scs = [
        S("Maize", "Clay", seed=seed + 1, events=big),
        S("Maize", "Clay", seed=seed + 2, events=big, field={"bunds": True, "z_bund": 0.1, "bund_water": 20}, off_season=True, lead=10, tail=25),
        S("Wheat", "SandyClay", seed=seed + 3, events=big, field={"sr_inhb": True}, off_season=True),
        S("Barley", "ClayLoam", seed=seed + 4, events=big, field={"curve_number_adj": True, "curve_number_adj_pct": 20}),
        S("Barley", "Sand", seed=seed + 5, events=big, field={"curve_number_adj": True, "curve_number_adj_pct": -30}),
        S("Sorghum", seed=seed + 6, events=big, soil_spec={"type": "SiltClayLoam", "kw": {"adj_cn": 0}}),
        S("Tomato", "Paddy", seed=seed + 7, regime="wet", irr={"method": 5, "kw": {"depth": 12, "AppEff": 50}}, iwc={"value": ["FC", "FC"], "depth_layer": [1, 2]}),
        S("Potato", "SiltClay", seed=seed + 8, regime="arid", irr={"method": 2, "kw": {"IrrInterval": 4, "AppEff": 65, "MaxIrr": 40}}),
        S("PaddyRice", "Paddy", seed=seed + 9, regime="monsoon", field={"bunds": True, "z_bund": 0.05, "bund_water": 60}, fallow={"bunds": True, "z_bund": 0.02}, off_season=True, seasons=2, iwc={"value": ["SAT", "SAT"], "depth_layer": [1, 2]}),
        S("Soybean", seed=seed + 10, soil_spec=L.LAYERED_SOILS["low_ksat"], events=big, irr={"method": 1, "kw": {"SMT": [90] * 4, "AppEff": 100, "MaxIrr": 60}}, iwc={"value": ["FC", "FC"], "depth_layer": [1, 2]}),
        S("PaddyRice", "Paddy", seed=seed + 11, regime="monsoon", field={"bunds": True, "z_bund": 0.2, "bund_water": 100}, off_season=True, seasons=2,
          iwc={"value": ["SAT", "SAT"], "depth_layer": [1, 2]}),
        S("Tomato", "Paddy", seed=seed + 12, regime="wet", fallow={"bunds": True, "z_bund": 0.1, "bund_water": 80}, off_season=True, lead=25,
          iwc={"value": ["SAT", "SAT"], "depth_layer": [1, 2]}),
    ]
    # nine consecutive wet days on thin compartments over thick ones with an impeding subsoil (water backs up to the surface through several
    # saturated compartments of different thickness)
    import datetime as _dt
    p0 = _dt.date(y, 4, 20)
    thin = {"type": "custom", "kw": {"dz": [0.05] * 4 + [0.25] * 4}, "layers": [[0.2, 0.10, 0.22, 0.41, 120.0, 100], [1.0, 0.39, 0.54, 0.55, 3.0, 100]]}
    for crop, d0 in (("Tomato", 30), ("Maize", 70)):
        scs.append(S(crop, seed=seed + 20 + d0, soil_spec=thin, iwc={"value": ["FC", "FC"], "depth_layer": [1, 2]},
                     events=[{"date": L.dstr(p0 + _dt.timedelta(days=d0 + k)), "P": 45} for k in range(9)]))
    scs.append(S("Sorghum", seed=seed + 23, soil_spec=L.LAYERED_SOILS["impeding_uneven"], iwc={"value": ["FC", "FC"], "depth_layer": [1, 2]},
                 events=[{"date": L.dstr(p0 + _dt.timedelta(days=40 + k)), "P": 60} for k in range(7)]))
    n = 200 if tier == "thorough" else 4
    for i in range(n):
        crop = rnd.choice(L.CAL_CROPS[:12])
        fm = rnd.choice([None, {"bunds": True, "z_bund": rnd.choice([0.03, 0.1, 0.25]), "bund_water": rnd.choice([0, 15, 400])},
                         {"sr_inhb": True}, {"curve_number_adj": True, "curve_number_adj_pct": rnd.choice([-40, -10, 8, 25])}])
        soil = rnd.choice(L.SOILS)
        cn_ok = True
        ev = [{"date": L.dstr(__import__("datetime").date(y, 4, 20) + __import__("datetime").timedelta(days=rnd.randrange(0, 120))), "P": rnd.choice([0.5, 5, 40, 150, 300])} for _ in range(6)]
        irr = rnd.choice([None, {"method": 5, "kw": {"depth": rnd.choice([3, 15]), "AppEff": rnd.choice([50, 75, 100])}},
                          {"method": 2, "kw": {"IrrInterval": rnd.choice([2, 6]), "AppEff": rnd.choice([60, 90])}}])
        scs.append(S(crop, soil, seed=rnd.randrange(10 ** 6), events=ev, field=fm, irr=irr, off_season=rnd.random() < 0.5,
                     lead=rnd.choice([0, 12]), regime=rnd.choice(["warm", "wet", "arid"]),
                     soil_spec={"type": soil, "kw": {"adj_cn": rnd.choice([0, 1])}}))
    scs += L.hard_cases(rnd)
    return scs


def c03(tier, seed):
    rnd = random.Random(3000 + seed)
    y = 2001
    S = L.scenario
    storms = L.storm_events(y, (4, 20), (300, 300, 150))
    scs = [
        S("Maize", "Clay", seed=seed + 1, iwc=SAT, events=storms),
        S("Wheat", "Sand", seed=seed + 2, iwc=DRY, regime="arid", seasons=3, off_season=True, wparams={"pwet": 0.0}),
        S("Barley", "SiltLoam", seed=seed + 3, gw={"water_table": "Y", "dates": ["2001/04/20"], "values": [0.4]}),
        S("Tomato", seed=seed + 4, soil_spec=L.LAYERED_SOILS["low_ksat"], iwc={"value": ["SAT", "SAT"], "depth_layer": [1, 2]}, events=storms),
        S("PaddyRice", "Paddy", seed=seed + 5, regime="monsoon", field={"bunds": True, "z_bund": 0.08, "bund_water": 500}, iwc={"value": ["SAT", "SAT"], "depth_layer": [1, 2]}, events=storms),
        S("Sorghum", "LoamySand", seed=seed + 6, regime="hot", iwc=DRY, irr={"method": 4, "kw": {"NetIrrSMT": 30}}, wparams={"pwet": 0.01}),
        S("Potato", seed=seed + 7, soil_spec=L.LAYERED_SOILS["three_layer"], iwc={"value": ["WP", "SAT", "FC"], "depth_layer": [1, 2, 3]}, gw={"water_table": "Y", "method": "Variable", "dates": ["2001/04/20", "2001/06/20", "2001/09/01"], "values": [1.5, 0.3, 1.0]}),
        S("Cotton", "SandyLoam", seed=seed + 8, regime="hot", irr={"method": 5, "kw": {"depth": 25, "MaxIrr": 25}}, field={"bunds": True, "z_bund": 0.03}),
        S("Quinoa", "Silt", seed=seed + 9, iwc={"wc_type": "Num", "value": [0.2]}, events=L.drought_events(y, (4, 20), 150), regime="arid"),
        S("Sunflower", seed=seed + 10, soil_spec=L.LAYERED_SOILS["uneven_dz"], events=storms, iwc={"wc_type": "Pct", "value": [100]}),
        S("Potato", seed=seed + 11, soil_spec=L.LAYERED_SOILS["impeding_uneven"], iwc={"value": ["SAT", "SAT"], "depth_layer": [1, 2]}, events=storms),
        S("Wheat", seed=seed + 13, soil_spec=L.LAYERED_SOILS["sand_over_clay"], irr={"method": 4, "kw": {"NetIrrSMT": 100}}, seasons=2, regime="arid", iwc={"value": ["WP", "WP"], "depth_layer": [1, 2]}),
        S("Wheat", seed=seed + 16, soil_spec=L.LAYERED_SOILS["sand_over_clay"], irr={"method": 4, "kw": {"NetIrrSMT": 80}}, regime="arid", iwc={"value": ["FC", "FC"], "depth_layer": [1, 2]}),
        S("Cotton", seed=seed + 17, soil_spec=L.LAYERED_SOILS["sand_over_clay"], irr={"method": 4, "kw": {"NetIrrSMT": 60}}, regime="hot", iwc={"wc_type": "Pct", "value": [50, 50], "depth_layer": [1, 2]}),
        S("Maize", seed=seed + 14, soil_spec=L.LAYERED_SOILS["two_layer"], irr={"method": 4, "kw": {"NetIrrSMT": 80}}, iwc={"wc_type": "Pct", "value": [30, 30], "depth_layer": [1, 2]}),
        S("Sorghum", seed=seed + 15, soil_spec=L.LAYERED_SOILS["three_layer"], irr={"method": 4, "kw": {"NetIrrSMT": 35}}, iwc={"value": ["FC", "FC", "FC"], "depth_layer": [1, 2, 3]}, regime="hot"),
        S("Cotton", seed=seed + 12, regime="wet", soil_spec=L.LAYERED_SOILS["low_ksat"], iwc={"value": ["FC", "SAT"], "depth_layer": [1, 2]}, events=storms),
    ]
    scs += L.diverse(rnd, 220 if tier == "thorough" else 5, focus="no_restrictive") + L.hard_cases(rnd)
    # the full sweep of pond depths behind bunds (hard_cases carries three of them)
    scs += L.shallow_pond_cases(rnd, 2001, storms=(13, 16, 19, 22, 25, 28) if tier != "thorough" else tuple(range(10, 40)))
    return scs


def c04(tier, seed):
    rnd = random.Random(4000 + seed)
    S = L.scenario
    scs = []
    dense = L.DENSE_CROPS if tier == "thorough" else ["Cotton", "DryBean", "SoybeanGDD", "SugarBeet", "SunflowerGDD"]
    for i, crop in enumerate(dense):
        scs.append(S(crop, rnd.choice(["Loam", "SiltLoam", "ClayLoam"]), seed=seed + i, irr={"method": 1, "kw": {"SMT": [80] * 4}},
                     regime="hot" if "GDD" in crop or crop == "Cotton" else "warm"))
    scs += [
        S("PaddyRice", "Paddy", seed=seed + 21, regime="monsoon", field={"bunds": True, "z_bund": 0.15, "bund_water": 80}, iwc={"value": ["SAT", "SAT"], "depth_layer": [1, 2]}),
        S("Maize", "SandyLoam", seed=seed + 22, field={"mulches": True, "mulch_pct": 100, "f_mulch": 1.0}, irr={"method": 2, "kw": {"IrrInterval": 6, "WetSurf": 30}}),
        S("Tomato", "Loam", seed=seed + 23, irr={"method": 5, "kw": {"depth": 5, "WetSurf": 20, "AppEff": 90}}, regime="arid"),
        S("Sorghum", "Clay", seed=seed + 24, irr={"method": 4, "kw": {"NetIrrSMT": 85}}, iwc={"value": ["WP"]}),
        S("Wheat", "SiltClayLoam", seed=seed + 25, gw={"water_table": "Y", "dates": ["2001/04/20"], "values": [0.8]}, off_season=True, lead=20),
        S("Sunflower", "Loam", seed=seed + 26, field={"mulches": True, "mulch_pct": 60, "f_mulch": 0.7}, fallow={"mulches": True, "mulch_pct": 100, "f_mulch": 1.0}, off_season=True, lead=10, irr={"method": 1, "kw": {"SMT": [90] * 4, "WetSurf": 50}}),
    ]
    # ponding that starts under a developed canopy and lasts several days (aeration / submergence bookkeeping)
    import datetime as _dt
    wet = [{"date": L.dstr(_dt.date(2001, 4, 20) + _dt.timedelta(days=70 + k)), "P": 90} for k in range(6)]
    scs += [
        S("Maize", "Clay", seed=seed + 31, field={"bunds": True, "z_bund": 0.25}, events=wet),
        S("PaddyRice", "Paddy", seed=seed + 32, regime="warm", field={"bunds": True, "z_bund": 0.2}, events=wet, iwc={"value": ["FC", "FC"], "depth_layer": [1, 2]}),
        S("PaddyRice", "Paddy", seed=seed + 34, regime="warm", field={"bunds": True, "z_bund": 0.1, "mulches": True, "mulch_pct": 80, "f_mulch": 0.7}, seasons=2, off_season=True, iwc={"value": ["FC", "FC"], "depth_layer": [1, 2]}),
        S("Tomato", "Paddy", seed=seed + 35, regime="warm", field={"bunds": True, "z_bund": 0.08}, irr={"method": 2, "kw": {"IrrInterval": 7, "WetSurf": 30, "AppEff": 75}}, iwc={"value": ["FC", "FC"], "depth_layer": [1, 2]}),
        S("Wheat", "Paddy", seed=seed + 36, regime="temperate", field={"bunds": True, "z_bund": 0.05, "mulches": True, "mulch_pct": 100, "f_mulch": 1.0}, irr={"method": 5, "kw": {"depth": 6, "WetSurf": 20}}, iwc={"value": ["FC", "FC"], "depth_layer": [1, 2]}),
        S("Soybean", "SiltClay", seed=seed + 33, field={"bunds": True, "z_bund": 0.12},
          events=wet[:4] + [{"date": "2001/08/10", "P": 140}, {"date": "2001/08/11", "P": 100}, {"date": "2001/08/12", "P": 100}, {"date": "2001/08/13", "P": 90}]),
    ]
    # net irrigation with a LOW threshold while the roots are still deepening into wetter subsoil (the day's root-zone deficit is tiny: the
    # reported requirement must not go negative beyond its rounding), on the repository's continental series
    for yr, soil, smt in (((1987, "Loam", 20), (1987, "SiltClayLoam", 30), (1990, "Loam", 20)) if tier != "thorough" else [(y_, so, t) for y_ in range(1983, 2001, 2) for so, t in (("Loam", 20), ("SiltClayLoam", 30))]):
        scs.append(L.builtin_scenario("Maize", yr, plant="05/01", file="champion_climate.txt", end=f"{yr}/12/30", soil=soil, irr={"method": 4, "kw": {"NetIrrSMT": smt}}))
    scs += L.diverse(rnd, 200 if tier == "thorough" else 4, focus="no_restrictive") + L.hard_cases(rnd)
    return scs
