"""C12 - see DESIGN.md section 5."""
from checks import tracebase, cropfam

PROP = "C12"
MCS = {"quick": [], "thorough": []}


def run(tier, seed):
    return tracebase.trace_check(PROP, tier, seed, cropfam.c12(tier, seed), MCS[tier])


def replay(path):
    return tracebase.replay_file(path, PROP)
