"""C03 - see DESIGN.md section 5."""
from checks import tracebase, waterfam

PROP = "C03"
MCS = {"quick": [("MC_Water.tla", "MC_Water_q1.cfg", 1500)],
       "thorough": [("MC_Water.tla", "MC_Water_q1.cfg", 1500), ("MC_Water.tla", "MC_Water_q2.cfg", 900), ("MC_Water.tla", "MC_Water_t1.cfg", 1500)]}


def run(tier, seed):
    return tracebase.trace_check(PROP, tier, seed, waterfam.c03(tier, seed), MCS[tier])


def replay(path):
    return tracebase.replay_file(path, PROP)
