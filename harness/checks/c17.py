"""C17 - stress and growth response functions are bounded and monotone."""
import json
import random
import time

import common as C
import response as R
import scenlib as L
import tlc
from checks import tracebase

PROP = "C17"


def run(tier, seed):
    t0 = time.time()
    rnd = random.Random(1700 + seed)
    mc = tracebase.run_mc_list([("MC_Gdd.tla", "MC_Gdd_thorough.cfg" if tier == "thorough" else "MC_Gdd_quick.cfg", 1200)], tier)
    crops = L.CROPS if tier == "thorough" else rnd.sample(L.CROPS, 8)
    res = C.pmap(R.crop_worker, [(c, tier == "thorough", seed + i) for i, c in enumerate(crops)])
    sweeps = [s for r in res for s in r]
    # the CO2 factor switches formula at 550 ppm and its weighting ramps from the reference concentration: fine lattice around both, every crop
    # (the sink-strength parameter differs between crops), at initialisation AND as recomputed at the start of a later season
    near = [540, 545, 548, 549, 549.5, 550, 550.5, 551, 552, 554, 556, 560]
    concs = sorted(set([250, 300, 340, 360, 369.41, 375, 400, 450, 500, 600, 800, 1200, 1999, 2000, 2500] + near + [545 + 0.25 * i for i in range(45)])) if tier == "thorough" \
        else sorted(set([250, 369.41, 380, 450, 900, 2000, 2500] + near))
    fc = C.pmap(R.fco2_worker, [(c, concs, kind) for c in L.CROPS for kind in ("init", "later")])
    # a reference concentration other than the default (user's CO2 object), lattice from below the reference to above the default reference
    refc = [300, 320, 330, 331, 332, 335, 340, 350, 360, 369.41, 372, 380, 400, 450, 549, 551, 700]
    fc += C.pmap(R.fco2_worker, [(c, refc, (330.0, later)) for c in (L.CROPS if tier == "thorough" else rnd.sample(L.CROPS, 6) + ["Wheat", "Default"]) for later in (False, True)])
    sweeps += [s for s in fc if s is not None]
    verdicts, tstats = tlc.validate_docs(sweeps, "Response", lambda s: len(s["pts"]))
    V = C.Verdicts(PROP)
    npts = 0
    for s, v in zip(sweeps, verdicts):
        npts += v["n"]
        if not v["ok"]:
            why = "nonfinite" if not v["finite"] else ("range" if v["range"] else "mono" if v["mono"] else "bound" if v["bound"] else "exact" if v["exact"] else "pure" if v.get("pure") else "order")
            idx = (v["range"] or v["mono"] or v["bound"] or v["exact"] or v.get("pure") or [0])[0]
            V.add(f"{s['f']}.{why}", {"crop": {"name": s["crop"]}}, {"function": s["f"], "x": s.get("x"), "first_bad_point": s["pts"][idx - 1: idx + 1] if idx else None, "verdict": v})
    rc = V.report()
    byf = {}
    for s in sweeps:
        byf[s["f"]] = byf.get(s["f"], 0) + 1
    cov = {"evaluations": npts, "distinct_nontrivial": len(sweeps),
           "rule": "one evaluation = one call of a real response function at a lattice point; distinct non-trivial = sweeps (function x crop x fixed "
                   "arguments) with at least 30 points, each judged by TLC against spec/Response.tla (range, monotonicity as an action property over "
                   "consecutive call events, boundary values, exact recomputation of GDD and the linear coefficients, inverse)",
           "samples": [{"f": s["f"], "crop": s["crop"], "x": s.get("x"), "first_points": s["pts"][:2]} for s in sweeps[:5]],
           "states": mc["states"] + tstats["states"], "transitions": mc["states"] + tstats["states"], "traces_validated_against_impl": len(sweeps),
           "model_instances": mc["instances"], "sweeps_by_function": byf, "crops": len(crops), "exhaustive": False,
           "known_findings_hit": V.known_hits}
    C.write_evidence(PROP, tier, seed, "exploration", cov, time.time() - t0, len(V.new),
                     assumptions=["TLC cannot recompute exp/log: for the transcendental kernels it evaluates the recorded lattice against the contract",
                                  "MC_Gdd model-checks the transcribed GDD formula exhaustively on the half-degree lattice"])
    return rc


def replay(path):
    rep = json.load(open(path))
    print(json.dumps(rep["detail"], indent=1)[:3000])
    return 1
