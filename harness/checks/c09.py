"""C09 - step-wise execution equals one uninterrupted run."""
import itertools
import random

import clockgen as G
import scenlib as L
from checks import equivbase

PROP = "C09"


def compositions(T):
    """all compositions of T (ordered sums), as lists of step counts"""
    out = []
    for mask in range(1 << (T - 1)):
        parts, cur = [], 1
        for b in range(T - 1):
            if mask >> b & 1:
                parts.append(cur)
                cur = 1
            else:
                cur += 1
        parts.append(cur)
        out.append(parts)
    return out


def short_windows(tier):
    # (window, T = number of steps of the uninterrupted run)
    ws = [
        ({"start": (2000, 3, 1), "end": (2000, 6, 30), "plant": (3, 1), "harv": None, "maturity": 8, "thermal": False, "off": False, "die": False}, None),
        ({"start": (2000, 2, 27), "end": (2000, 3, 7), "plant": (3, 1), "harv": None, "maturity": 15, "thermal": False, "off": True, "die": False}, None),
    ]
    # two seasons with the jump from the first harvest to the second planting date (off-season not simulated): every call boundary incl. the one
    # exactly at the end of the first season
    ws.append(({"start": (1999, 12, 30), "end": (2001, 1, 6), "plant": (12, 31), "harv": None, "maturity": 4, "thermal": False, "off": False, "die": False, "seasons": 2}, None))
    if tier == "thorough":
        ws.append(({"start": (1999, 12, 28), "end": (2000, 1, 9), "plant": (12, 31), "harv": None, "maturity": 6, "thermal": False, "off": True, "die": False}, None))
    return ws


def run(tier, seed):
    rnd = random.Random(900 + seed)
    jobs, pairs = [], []
    gen = []
    for wi, (w, _) in enumerate(short_windows(tier)):
        sc = G.scenario_of(w, seed=seed + wi, irr={"method": 2, "kw": {"IrrInterval": 3}})
        base = len(jobs)
        jobs.append({"kind": "plain", "scenario": sc})
        # T is not known before running: compositions are generated for the T the model predicts and checked by TLC (CallsOk)
        import datetime as dt
        nsteps = (dt.date(*w["end"]) - dt.date(*w["start"])).days
        if w["off"]:
            T = nsteps
        else:
            lead = (dt.date(w["start"][0], *w["plant"]) - dt.date(*w["start"])).days
            T = max(0, lead) + w["maturity"] * int(w.get("seasons", 1))
        T = min(T, nsteps)
        assert T <= 12
        comps = compositions(T)
        # one overshooting composition and one till-termination tail
        comps += [[T + 5], [1, T + 3], [2, 0]]
        if T < nsteps and not w["off"]:
            pass
        for c in comps:
            jobs.append({"kind": "sliced", "scenario": sc, "slices": c})
            idx = len(jobs) - 1

            def calls_of(rb, c=c):
                cum, out = 0, []
                for call in rb["calls"]:
                    cum += call["k"]
                    out.append({"k": call["k"], "cum": cum, "finished": call["finished"], "visible": call["visible"], "info": call["info"], "nsteps": call["nsteps"]})
                return out
            nsim = (lambda ta: sum(1 for r in ta["rows"] if r["sim"]))
            pairs.append({"a": base, "b": idx, "label": {"window": wi, "slices": c}, "scenario": sc, "calls": calls_of, "T": nsim,
                          "rule": (lambda ta, c=c: "identity" if (sum(c) >= nsim(ta) or 0 in c) else "prefix"),
                          "cut": (lambda ta, c=c: ta["start"] + sum(c))})
        gen.append(G.tla_window(w))
    # long runs: random slicings of multi-season runs with numeric content
    # (the winter crop's seasons span the turn of the year: a call boundary after 1 January lies inside a season sown the year before)
    longs = [L.scenario("Maize", "SandyLoam", seed=seed + 50, seasons=2, irr={"method": 1, "kw": {"SMT": [60] * 4}}),
             L.scenario("Wheat", "Loam", seed=seed + 53, plant_md=(10, 15), year=2001, seasons=2),
             # every irrigation strategy is sliced (the decision state - day counters, cumulated depth, the externally set depth - lives across calls)
             L.scenario("Sorghum", "Loam", seed=seed + 54, seasons=2, irr={"method": 5, "kw": {"depth": 4, "MaxIrrSeason": 260}}),
             L.scenario("Potato", "SandyLoam", seed=seed + 55, seasons=2, irr={"method": 2, "kw": {"IrrInterval": 6, "MaxIrr": 20}}, off_season=True),
             L.scenario("Barley", "ClayLoam", seed=seed + 56, seasons=2, irr={"method": 3, "schedule": [["2001/05/01", 30], ["2001/06/10", 40], ["2002/05/05", 25], ["2002/06/20", 35]]}),
             L.scenario("WheatGDD", "Loam", seed=seed + 51, seasons=2, off_season=True, regime="warm"),
             L.scenario("Tomato", "Clay", seed=seed + 52, seasons=2, irr={"method": 4}, gw={"water_table": "Y", "dates": ["2001/04/20"], "values": [1.5]})]
    # fallow management different from the season's, fallow days simulated after a call boundary
    longs.insert(3, L.scenario("Barley", "ClayLoam", seed=seed + 58, seasons=2, off_season=True, lead=20, field={"mulches": True, "mulch_pct": 30, "f_mulch": 0.4},
                               fallow={"mulches": True, "mulch_pct": 90, "f_mulch": 0.9, "sr_inhb": True}, events=L.storm_events(2001, (1, 20), (60, 40, 80))))
    # bunds on the fallow field only, a storm before planting, call boundaries while the water is standing
    longs.insert(3, L.scenario("Maize", "Clay", seed=seed + 59, lead=50, fallow={"bunds": True, "z_bund": 0.25}, events=[{"date": "2001/03/10", "P": 90}, {"date": "2001/03/25", "P": 70}]))
    # a weather table whose columns are not in the canonical order (what a resumed call reads must be what the first call read)
    longs.insert(3, dict(L.scenario("Maize", "Loam", seed=seed + 57, seasons=2, irr={"method": 1, "kw": {"SMT": [50] * 4}}), _wx={"perm": [1, 0, 3, 2, 4], "extra_cols": [["Station", 0, "str"]], "index": "shifted"}))
    # ... and a share of the pairwise covering array over the configuration dimensions
    longs += L.pairwise_cases(seed, part=seed % 43, parts=43) if tier != "thorough" else L.pairwise_cases(seed, part=seed % 4, parts=4)
    nl = 40 if tier == "thorough" else 3
    for k, sc in enumerate(longs):
        if k >= 10:
            nl = 6 if tier == "thorough" else 2          # covering-array runs: fewer slicings each
        if (tier != "thorough") and k in (8, 9):
            continue                                     # (the thorough tier's extra hand-made runs)
        base = len(jobs)
        jobs.append({"kind": "plain", "scenario": sc})
        for j in range(nl):
            sl = [rnd.choice([1, 1, 2, 3, 7, 30, 100, 365]) for _ in range(rnd.randrange(2, 40))] + [0 if rnd.random() < 0.7 else 10 ** 4]
            jobs.append({"kind": "sliced", "scenario": sc, "slices": sl})
            pairs.append({"a": base, "b": len(jobs) - 1, "rule": "identity", "label": {"long": sc["crop"]["name"], "slices": sl}, "scenario": sc})
    tla, cfg = G.mc_text("MC_ClockSlices", gen, list(range(0, 12)), slice_inv=True)
    return equivbase.equiv_check(PROP, tier, seed, jobs, pairs, mc_generated=[("MC_ClockSlices", tla, cfg, 900)],
                                 rule_text="C09: all compositions of short windows (every way of slicing T steps into run calls) plus random "
                                           "slicings of two-season runs; per-call completion flags judged by Equiv!CallsOk",
                                 extra={"exhaustive_compositions_T": 9 if tier == "quick" else 11})


def replay(path):
    return equivbase.replay_pair(path, PROP)
