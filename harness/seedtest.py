#!/usr/bin/env python3
"""Confirm an independently written seeded change and run registered checks against it.

usage: seedtest.py <outdir with patch.diff/demo.py/notes.md> <name> <target property> [more property ids to run ...]

1. confirmation in a scratch worktree (outside /repo and /verif): patch applies, the unedited test-suite passes with it,
   demo.py exits 1 with the change and 0 without;
2. the patch is applied to /repo (git apply), the quick checks are run, /repo is restored (git checkout -- .);
3. everything is stored under /verif/seeded/<name>/ (patch.diff, demo.py, notes.md, meta.json).
"""
import json
import os
import shutil
import subprocess
import sys
import tempfile
import time

ROOT = os.path.dirname(os.path.dirname(os.path.abspath(__file__)))
REPO = "/repo"


def sh(cmd, cwd=None, env=None, timeout=3600):
    p = subprocess.run(cmd, shell=True, cwd=cwd, env=env, capture_output=True, text=True, timeout=timeout)
    return p.returncode, p.stdout + p.stderr


def main():
    out, name, target = sys.argv[1], sys.argv[2], sys.argv[3]
    props = [target] + [p for p in sys.argv[4:] if p != target]
    patch = os.path.join(out, "patch.diff")
    demo = os.path.join(out, "demo.py")
    meta = {"name": name, "written_against": target, "ran": [], "confirmed": {}}
    wt = tempfile.mkdtemp(prefix="seed_wt_")
    os.rmdir(wt)
    rc, o = sh(f"git -C {REPO} worktree add -q {wt} HEAD")
    assert rc == 0, o
    try:
        env = dict(os.environ, PYTHONPATH=wt)
        rc0, o0 = sh(f"/venv/bin/python {demo}", cwd=wt, env=env, timeout=900)
        rc, o = sh(f"git -C {wt} apply {patch}")
        assert rc == 0, "patch does not apply: " + o
        rct, ot = sh("/venv/bin/python -m pytest -q -p no:cacheprovider --timeout=900 tests", cwd=wt, env=env, timeout=1800)
        rc1, o1 = sh(f"/venv/bin/python {demo}", cwd=wt, env=env, timeout=900)
        meta["confirmed"] = {"tests_pass_with_change": rct == 0, "tests_tail": ot.strip().splitlines()[-1] if ot.strip() else "",
                             "demo_exit_without_change": rc0, "demo_exit_with_change": rc1,
                             "demo_output_with_change": o1[-600:]}
        print("confirmation:", json.dumps({k: v for k, v in meta["confirmed"].items() if k != "demo_output_with_change"}))
        ok = rct == 0 and rc0 == 0 and rc1 != 0
        meta["kept"] = bool(ok)
    finally:
        sh(f"git -C {REPO} worktree remove --force {wt}")
        shutil.rmtree(wt, ignore_errors=True)
    results = {}
    # the evidence files describe the UNCHANGED tree: keep them aside while the checks run against the patched one
    ev_backup = tempfile.mkdtemp(prefix="seed_ev_")
    for f in os.listdir(os.path.join(ROOT, "evidence")):
        shutil.copy(os.path.join(ROOT, "evidence", f), os.path.join(ev_backup, f))
    if ok:
        st, o = sh(f"git -C {REPO} status --porcelain")
        assert o.strip() == "", "/repo is not clean: " + o
        rc, o = sh(f"git -C {REPO} apply {patch}")
        assert rc == 0, o
        try:
            for p in props:
                t0 = time.time()
                rc, o = sh(f"bin/check {p} --tier quick", cwd=ROOT, timeout=3600)
                lines = [l for l in o.splitlines() if l.startswith("VIOLATION") or l.startswith("MACHINERY")]
                keys = sorted({os.path.basename(l.split("replay=")[-1]).rsplit("_", 1)[0] for l in lines if "replay=" in l})
                results[p] = {"exit": rc, "violation_keys": keys, "wall_s": round(time.time() - t0, 1)}
                meta["ran"].append(f"bin/check {p} --tier quick  -> exit {rc}")
                print(p, results[p])
        finally:
            sh(f"git -C {REPO} checkout -- .")
            st, o = sh(f"git -C {REPO} status --porcelain")
            assert o.strip() == "", "/repo not restored: " + o
            for f in os.listdir(ev_backup):
                shutil.copy(os.path.join(ev_backup, f), os.path.join(ROOT, "evidence", f))
    shutil.rmtree(ev_backup, ignore_errors=True)
    meta["checks"] = results
    meta["detected_by"] = [p for p, r in results.items() if r["exit"] == 1]
    dst = os.path.join(ROOT, "seeded", name)
    os.makedirs(dst, exist_ok=True)
    for f in ("patch.diff", "demo.py", "notes.md"):
        if os.path.exists(os.path.join(out, f)) and os.path.abspath(os.path.join(out, f)) != os.path.abspath(os.path.join(dst, f)):
            shutil.copy(os.path.join(out, f), os.path.join(dst, f))
    if os.path.exists(os.path.join(dst, "meta.json")):
        old = json.load(open(os.path.join(dst, "meta.json")))
        meta["history"] = old.get("history", []) + [{"checks": old.get("checks"), "detected_by": old.get("detected_by")}]
    if os.path.exists(os.path.join(dst, "meta.json")):
        for k in ("breaks_property", "needs_to_manifest"):
            if k in old:
                meta[k] = old[k]
    json.dump(meta, open(os.path.join(dst, "meta.json"), "w"), indent=1)
    print("detected by:", meta["detected_by"])


if __name__ == "__main__":
    main()
